(** Proofs about Relay/Redelivery.v: any number of redeliveries, by induction on the attempts. *)
From WM Require Import Base.Prelude Message.Model Handler.RouterHandle Handler.RouterProofs
     Relay.Model Relay.Proofs Relay.Redelivery.
Open Scope N_scope.

Section Redeliver.
  Variable dec : N -> option envelope.
  Variable atoi : N -> option Z.
  Variable itoa : Z -> N.
  Variable rk : N.

  Notation run := (run dec atoi itoa rk).
  Notation source_of := (source_of dec).
  Notation redeliver := (redeliver dec atoi itoa rk).
  Notation relayed := (relayed atoi itoa rk).
  Notation counter := (counter atoi rk).

  (** where (and as what) a delivered message is to be relayed when nothing cancels it *)
  Definition dest (c : comp) (src : N) (m : msg) : option (N * msg) :=
    source_of c (Inp src m false PubAccept).

  Lemma source_of_dest c src m cd pb x :
    source_of c (Inp src m cd pb) = Some x -> dest c src m = Some x.
  Proof.
    unfold dest, Model.source_of. destruct c as [ab|tgt| |gen delay]; simpl; try (intros H; exact H).
    destruct ((0 <? delay)%Z && cd); [discriminate|]. rewrite andb_false_r. intros H; exact H.
  Qed.

  Lemma accepted_acked c i : accepted (snd (run c i)) = true -> fst (run c i) = Acked.
  Proof.
    rewrite run_accepted_full, run_final. unfold should_ack.
    destruct (source_of c i); [|discriminate]. destruct (i_pb i); congruence.
  Qed.

  Lemma not_acked_not_accepted c i : fst (run c i) <> Acked -> accepted_pubs (run c i) = [].
  Proof.
    intros H. unfold accepted_pubs. destruct (accepted (snd (run c i))) eqn:E; [|reflexivity].
    exfalso. apply H. now apply accepted_acked.
  Qed.

  Lemma not_acked_eqb (r : settle * list ev) : fst r <> Acked -> settle_eqb (fst r) Acked = false.
  Proof. destruct (fst r); simpl; congruence. Qed.

  (** a GoChannel-like source never sees what the handler wrote into the delivered copy *)
  Lemma redeliver_fresh_original_untouched c src obj beh :
    snd (redeliver FreshCopy c src obj beh) = obj.
  Proof.
    induction beh as [|[cd pb] rest IH]; simpl; [reflexivity|].
    destruct (fst (run c (Inp src (gochan_copy obj) cd pb))); simpl; try reflexivity;
      destruct (redeliver FreshCopy c src obj rest) as [rs o]; simpl in *; exact IH.
  Qed.

  (** every attempt handles a fresh copy of the same original *)
  Lemma redeliver_fresh_attempts c src obj beh :
    Forall (fun r => exists cd pb, In (cd, pb) beh /\ r = run c (Inp src (gochan_copy obj) cd pb))
           (fst (redeliver FreshCopy c src obj beh)).
  Proof.
    induction beh as [|[cd pb] rest IH]; simpl; [constructor|].
    assert (Hhead : exists cd0 pb0, In (cd0, pb0) ((cd, pb) :: rest)
                      /\ run c (Inp src (gochan_copy obj) cd pb) = run c (Inp src (gochan_copy obj) cd0 pb0)).
    { exists cd, pb. split; [now left | reflexivity]. }
    assert (Htail : Forall (fun r => exists cd0 pb0, In (cd0, pb0) ((cd, pb) :: rest)
                      /\ r = run c (Inp src (gochan_copy obj) cd0 pb0)) (fst (redeliver FreshCopy c src obj rest))).
    { eapply Forall_impl; [|exact IH]. intros r (cd0 & pb0 & Hin & ->). exists cd0, pb0. split; [now right | reflexivity]. }
    destruct (fst (run c (Inp src (gochan_copy obj) cd pb))); simpl.
    2: constructor; [exact Hhead | constructor].
    all: destruct (redeliver FreshCopy c src obj rest) as [rs o]; simpl in *; constructor; assumption.
  Qed.

  Ltac step_rec md c src rest IH :=
    match goal with |- context [Redelivery.redeliver _ _ _ _ md c src ?o rest] =>
      specialize (IH o); destruct (Redelivery.redeliver dec atoi itoa rk md c src o rest) as [rs o'] end.

  (** the source stops at the first Ack: every attempt before the last one was not acked *)
  Lemma redeliver_ack_only_last md c src beh : forall obj,
    Forall (fun r => fst r <> Acked) (removelast (fst (redeliver md c src obj beh))).
  Proof.
    induction beh as [|[cd pb] rest IH]; intros obj; simpl; [constructor|].
    set (i := Inp src (delivered_obj md obj) cd pb).
    destruct (fst (run c i)) eqn:E; simpl; [|constructor|];
      (step_rec md c src rest IH;
       simpl in *; destruct rs as [|r1 rs]; [constructor|]; constructor; [rewrite E; discriminate | exact IH]).
  Qed.

  (** at most one attempt is accepted by the destination, whatever the source does *)
  Lemma redeliver_accepted_at_most_once md c src beh : forall obj,
    (length (all_accepted (fst (redeliver md c src obj beh))) <= 1)%nat
    /\ (n_acked (fst (redeliver md c src obj beh)) <= 1)%nat.
  Proof.
    induction beh as [|[cd pb] rest IH]; intros obj; simpl; [unfold all_accepted, n_acked; simpl; lia|].
    set (i := Inp src (delivered_obj md obj) cd pb).
    destruct (fst (run c i)) eqn:E; simpl.
    2: { unfold all_accepted, n_acked. simpl. rewrite E. simpl. rewrite app_nil_r. unfold accepted_pubs.
         destruct (accepted (snd (run c i))); simpl; [|lia]. rewrite map_length.
         destruct (run_shape dec atoi itoa rk c i) as (_ & _ & H & _). split; [exact H | lia]. }
    all: step_rec md c src rest IH;
      simpl in *; unfold all_accepted, n_acked in *; simpl; rewrite E; simpl;
      rewrite not_acked_not_accepted by (rewrite E; discriminate); simpl; exact IH.
  Qed.

  (** GoChannel-like source, message that is to be relayed to (t, as m): however often it is
      redelivered, the destination accepts it exactly once and then it is acked, or never and
      then it is not acked (it stays with the source); every accepted copy is the same *)
  Lemma redeliver_fresh_spec c src obj beh t m :
    dest c src (gochan_copy obj) = Some (t, m) ->
    let rs := fst (redeliver FreshCopy c src obj beh) in
    (all_accepted rs = [(t, [relayed c m])] /\ n_acked rs = 1%nat)
    \/ (all_accepted rs = [] /\ n_acked rs = 0%nat).
  Proof.
    intros Hd. induction beh as [|[cd pb] rest IH]; simpl; [right; split; reflexivity|].
    set (i := Inp src (gochan_copy obj) cd pb).
    destruct (fst (run c i)) eqn:E; simpl.
    2: { left. unfold all_accepted, n_acked. simpl. rewrite E. simpl. rewrite app_nil_r.
         assert (Hs : should_ack dec c i = true) by (apply (run_ack_iff dec atoi itoa rk c i); exact E).
         unfold should_ack in Hs. unfold accepted_pubs. rewrite run_accepted_full, run_pubs.
         destruct (source_of c i) as [[t' m']|] eqn:Es.
         - apply source_of_dest in Es. rewrite Hd in Es. inversion Es; subst t' m'.
           destruct (i_pb i); try discriminate. split; reflexivity.
         - exfalso. destruct c as [[|]|tgt| |gen delay]; try discriminate.
           unfold dest, Model.source_of in *. simpl in *. rewrite Hd in Es. discriminate. }
    all: destruct (Redelivery.redeliver dec atoi itoa rk FreshCopy c src obj rest) as [rs o];
      simpl in *; unfold all_accepted, n_acked in *; simpl; rewrite E; simpl;
      rewrite not_acked_not_accepted by (rewrite E; discriminate); simpl; exact IH.
  Qed.

  (** whatever the destination accepted in a redelivery sequence from a GoChannel-like source
      is the relayed copy of the ORIGINAL, on the original's destination *)
  Lemma redeliver_fresh_accepted_elems c src obj beh x :
    In x (all_accepted (fst (redeliver FreshCopy c src obj beh))) ->
    exists t m, dest c src (gochan_copy obj) = Some (t, m) /\ x = (t, [relayed c m]).
  Proof.
    intros Hin. unfold all_accepted in Hin. apply in_flat_map in Hin as (r & Hr & Hx).
    pose proof (redeliver_fresh_attempts c src obj beh) as HF. rewrite Forall_forall in HF.
    destruct (HF r Hr) as (cd & pb & _ & ->). unfold accepted_pubs in Hx.
    destruct (accepted _); [|contradiction]. rewrite run_pubs in Hx.
    destruct (source_of c _) as [[t m]|] eqn:Es; [|contradiction].
    apply source_of_dest in Es. destruct Hx as [<-|[]]. exists t, m. split; [exact Es | reflexivity].
  Qed.

  (** the model's redelivery history passes the acceptor that judges implementation histories *)
  Lemma redeliver_monitor_accepted c src obj beh :
    (forall s z, atoi s = Some z -> in64 z) -> (forall z, in64 z -> atoi (itoa z) = Some z) ->
    wf_msg obj -> (forall t m, dest c src (gochan_copy obj) = Some (t, m) -> wf_msg m) ->
    redelivery_monitor dec atoi rk c src obj beh
      (fst (redeliver FreshCopy c src obj beh)) (snd (redeliver FreshCopy c src obj beh)) = true.
  Proof.
    intros Hr Hi Hwf Hd. unfold redelivery_monitor.
    assert (H1 : attempts_ok dec atoi rk c src obj beh (fst (redeliver FreshCopy c src obj beh)) = true).
    { induction beh as [|[cd pb] rest IH]; simpl; [reflexivity|].
      assert (Hm : relay_monitor dec atoi rk c (Inp src (gochan_copy obj) cd pb)
                     (snd (run c (Inp src (gochan_copy obj) cd pb))) (fst (run c (Inp src (gochan_copy obj) cd pb))) = true).
      { apply run_monitor; try assumption. intros t m Hs. apply (Hd t m). eapply source_of_dest. exact Hs. }
      destruct (fst (run c (Inp src (gochan_copy obj) cd pb))) eqn:E; simpl.
      2: { rewrite ?E, Hm. reflexivity. }
      all: destruct (Redelivery.redeliver dec atoi itoa rk FreshCopy c src obj rest) as [rs o];
        simpl in *; rewrite ?E, Hm; exact IH. }
    rewrite H1. simpl.
    assert (H2 : forallb (fun r : settle * list ev => negb (settle_eqb (fst r) Acked))
                   (removelast (fst (redeliver FreshCopy c src obj beh))) = true).
    { apply forallb_forall. intros r Hin.
      pose proof (redeliver_ack_only_last FreshCopy c src beh obj) as HF. rewrite Forall_forall in HF.
      rewrite not_acked_eqb by (apply HF; exact Hin). reflexivity. }
    rewrite H2. simpl.
    destruct (redeliver_accepted_at_most_once FreshCopy c src beh obj) as [H3 _].
    apply Nat.leb_le in H3. rewrite H3. simpl.
    rewrite redeliver_fresh_original_untouched. unfold same_content. rewrite !N.eqb_refl. simpl.
    now apply meta_eqb_refl.
  Qed.

  (** *** requeuer: the counter *)
  Lemma counter_copy m : counter (mmeta (gochan_copy m)) = counter (mmeta m).
  Proof. reflexivity. Qed.

  Lemma dest_requeuer gen delay src m t m' :
    dest (CRequeuer gen delay) src m = Some (t, m') -> m' = m /\ gen m = Some t /\ mmeta m <> None.
  Proof.
    unfold dest, Model.source_of. simpl. rewrite andb_false_r.
    destruct (gen m) as [t0|]; [|discriminate]. destruct (mmeta m) eqn:E; [|discriminate].
    intros H. inversion H; subst. repeat split. discriminate.
  Qed.

  Section Counter.
    Hypothesis atoi_range : forall s z, atoi s = Some z -> in64 z.
    Hypothesis atoi_itoa : forall z, in64 z -> atoi (itoa z) = Some z.

    Lemma counter_requeued m l : counter (mmeta (requeued atoi itoa rk m l)) = incr64 (counter (mmeta m)).
    Proof.
      unfold Model.counter at 1. rewrite (requeued_counter atoi itoa rk atoi_range atoi_itoa). reflexivity.
    Qed.

    (** every copy the destination accepts while ONE message is redelivered any number of times
        carries the original's counter plus one — failed attempts do not add up *)
    Lemma redeliver_requeuer_counter gen delay src obj beh t ms :
      In (t, ms) (all_accepted (fst (redeliver FreshCopy (CRequeuer gen delay) src obj beh))) ->
      exists m', ms = [m'] /\ gen (gochan_copy obj) = Some t
                 /\ uuid m' = uuid obj /\ payload m' = payload obj
                 /\ (forall k, k <> rk -> meta_get k (content (mmeta m')) = meta_get k (content (mmeta obj)))
                 /\ counter (mmeta m') = incr64 (counter (mmeta obj)).
    Proof.
      intros Hin. apply redeliver_fresh_accepted_elems in Hin as (t' & m & Hd & Hx).
      inversion Hx; subst t' ms. apply dest_requeuer in Hd as (-> & Hg & _).
      eexists; split; [reflexivity|]. split; [exact Hg|]. simpl. split; [reflexivity|]. split; [reflexivity|].
      split.
      - intros k Hk. now apply meta_get_set_other.
      - change (counter (mmeta (requeued atoi itoa rk (gochan_copy obj) (content (mmeta obj))))
                = incr64 (counter (mmeta obj))).
        rewrite counter_requeued. reflexivity.
    Qed.

    (** requeued again and again, with any failures in between: after n successful requeues the
        counter reads the original's plus n (below MaxInt64), everything else is as it was *)
    Lemma requeue_rounds_counter gen delay src rounds : forall obj,
      let '(o, n) := requeue_rounds dec atoi itoa rk gen delay src obj rounds in
      uuid o = uuid obj /\ payload o = payload obj
      /\ (forall k, k <> rk -> meta_get k (content (mmeta o)) = meta_get k (content (mmeta obj)))
      /\ ((counter (mmeta obj) + Z.of_nat n <= max64)%Z ->
          counter (mmeta o) = (counter (mmeta obj) + Z.of_nat n)%Z).
    Proof.
      induction rounds as [|beh rest IH]; intros obj; simpl.
      - repeat split. intros _. lia.
      - destruct (all_accepted (fst (redeliver FreshCopy (CRequeuer gen delay) src obj beh))) as [|[t ms] tl] eqn:Ea.
        + exact (IH obj).
        + assert (Hin : In (t, ms) (all_accepted (fst (redeliver FreshCopy (CRequeuer gen delay) src obj beh))))
            by (rewrite Ea; now left).
          apply redeliver_requeuer_counter in Hin as (m' & -> & _ & Hu & Hp & Hk & Hc).
          specialize (IH m').
          destruct (requeue_rounds dec atoi itoa rk gen delay src m' rest) as [o n].
          destruct IH as (Hu' & Hp' & Hk' & Hc').
          split; [congruence|]. split; [congruence|]. split.
          * intros k Hne. rewrite Hk' by assumption. now apply Hk.
          * intros Hle. assert (Hlt : (counter (mmeta obj) < max64)%Z) by lia.
            rewrite Hc in Hc'. rewrite incr64_plus_one in Hc' by assumption. rewrite Hc' by lia. lia.
    Qed.
  End Counter.

  (** ** streams (several source topics, any interleaving of sources in the list) *)

  (** what the stream's destination ends up with is, item by item, what each item's redelivery
      sequence had accepted *)
  Lemma stream_accepted_app mode c l1 l2 :
    stream_accepted dec atoi itoa rk mode c (l1 ++ l2)
    = stream_accepted dec atoi itoa rk mode c l1 ++ stream_accepted dec atoi itoa rk mode c l2.
  Proof. unfold stream_accepted, stream_run. now rewrite map_app, flat_map_app. Qed.

  (** FanIn / FanOut fed by GoChannel-like sources: the destination gets exactly the messages whose
      redelivery sequence reached an accepting attempt — each once, as a copy of the original, in
      stream order, on the target topic — and exactly those items are acked; the others are
      never acked (they stay with their source) *)
  Definition eventually_accepted (c : comp) (it : item) : bool :=
    negb (Nat.eqb (n_acked (fst (redeliver FreshCopy c (it_src it) (it_msg it) (it_beh it)))) 0).

  Lemma stream_passthrough_preserves c items :
    (exists t, c = CFanIn t) \/ c = CFanOut ->
    stream_accepted dec atoi itoa rk FreshCopy c items
    = map (fun it => (rtopic_of c (Inp (it_src it) (it_msg it) false PubAccept), [gochan_copy (it_msg it)]))
          (filter (eventually_accepted c) items).
  Proof.
    intros Hc. induction items as [|it items IH]; [reflexivity|].
    change (it :: items) with ([it] ++ items). rewrite stream_accepted_app, IH. clear IH. simpl.
    unfold stream_accepted, stream_run. simpl. rewrite app_nil_r.
    set (t := rtopic_of c (Inp (it_src it) (it_msg it) false PubAccept)).
    assert (Hd : dest c (it_src it) (gochan_copy (it_msg it)) = Some (t, gochan_copy (it_msg it))).
    { unfold t. destruct Hc as [[tg ->]| ->]; reflexivity. }
    assert (Hr : relayed c (gochan_copy (it_msg it)) = gochan_copy (it_msg it)).
    { destruct Hc as [[tg ->]| ->]; reflexivity. }
    destruct (redeliver_fresh_spec c (it_src it) (it_msg it) (it_beh it) t _ Hd) as [[Ha Hn]|[Ha Hn]];
      unfold eventually_accepted; cbv zeta in Ha, Hn; rewrite Ha, Hn; simpl; [rewrite Hr|]; reflexivity.
  Qed.

  (** per source topic: restricting the stream to one source restricts what arrives *)
  Lemma stream_passthrough_per_source c items s :
    (exists t, c = CFanIn t) \/ c = CFanOut ->
    stream_accepted dec atoi itoa rk FreshCopy c (filter (fun it => it_src it =? s) items)
    = map (fun it => (rtopic_of c (Inp (it_src it) (it_msg it) false PubAccept), [gochan_copy (it_msg it)]))
          (filter (fun it => (it_src it =? s) && eventually_accepted c it) items).
  Proof.
    intros Hc. rewrite stream_passthrough_preserves by assumption. f_equal.
    induction items as [|it items IH]; simpl; [reflexivity|].
    destruct (it_src it =? s); simpl; [|exact IH]. destruct (eventually_accepted c it); simpl; [f_equal|]; exact IH.
  Qed.
End Redeliver.

(** FanOut with n subscribers on the internal GoChannel: what the subscribers of a topic receive
    for a stream is n copies of every message that was eventually accepted, and nothing else *)
Definition fanout_stream_copies (dec : N -> option envelope) (atoi : N -> option Z) (itoa : Z -> N) (rk : N)
           (n : nat) (items : list item) : list (N * msg) :=
  flat_map (fun x => match snd x with
                     | [m] => map (pair (fst x)) (fanout_deliver n false m)
                     | _ => []
                     end)
           (stream_accepted dec atoi itoa rk FreshCopy CFanOut items).

Lemma flat_map_map {A B C} (f : A -> B) (g : B -> list C) l :
  flat_map g (map f l) = flat_map (fun x => g (f x)) l.
Proof. induction l as [|x l IH]; simpl; [reflexivity|]. now rewrite IH. Qed.

Lemma fanout_stream_copies_spec dec atoi itoa rk n items :
  fanout_stream_copies dec atoi itoa rk n items
  = flat_map (fun it => repeat (it_src it, gochan_copy (it_msg it)) n)
             (filter (eventually_accepted dec atoi itoa rk CFanOut) items).
Proof.
  unfold fanout_stream_copies. rewrite stream_passthrough_preserves by (right; reflexivity).
  rewrite flat_map_map. apply flat_map_ext. intros it. simpl. unfold fanout_deliver.
  induction n as [|n IHn]; simpl; [reflexivity|]. now rewrite IHn.
Qed.
