(** A computed run of the composed system (Relay/Consumer.v): buffer 0, one Sender for publication
    5 (the message with counter 41), the requeuer as consumer; the destination fails while copy 0
    is handled and accepts copy 1. *)
From WM Require Import Base.Prelude Message.Model Handler.RouterHandle Relay.Model Relay.Proofs
     Relay.Witness Relay.Redelivery Relay.RedeliveryWitness Relay.Consumer GoChannel.Sub.

Local Open Scope nat_scope.

Definition w_beh (k : cid) : attempt := if Nat.eqb k 0 then (false, PubError) else (false, PubAccept).
Definition w_schedule : list clabel :=
  [CSub (LSpawn 0 5); CSub (LStep 0); CSub (LStep 0); CSub (LHandoff 0);
   CSub (LAck 0);                       (* the environment cannot settle: not a step of the composed system *)
   CHandle 0;                           (* relay: destination error -> Nack *)
   CHandle 0;                           (* not twice *)
   CSub (LSeeNacked 0); CSub (LStep 0); CSub (LHandoff 0);   (* Layer A: fresh copy 1 of the same publication *)
   CHandle 1;                           (* relay: accepted -> Ack *)
   CSub (LSeeAcked 0); CSub (LStep 0)].

Definition w_final : cstate :=
  crun w_dec w_atoi w_itoa w_rk w_rq 1%N (fun _ => w_41) w_beh (cinit 0 true) w_schedule.

Lemma composed_witness :
  map fst (c_log w_final) = [0; 1]
  /\ map (fun x => fst (snd x)) (c_log w_final) = [Nacked; Acked]
  /\ flat_map (fun x => accepted_pubs (snd x)) (c_log w_final)
     = [(7%N, [Msg 2 3 (Some [(w_rk, w_itoa 42)])])]
  /\ map (fun k => c_st (copies (c_sub w_final) k)) [0; 1] = [Nacked; Acked]
  /\ thr (c_sub w_final) 0 = SDone 5 /\ next (c_sub w_final) = 2.
Proof. vm_compute. repeat split; reflexivity. Qed.
