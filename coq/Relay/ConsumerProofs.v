(** Proofs about Relay/Consumer.v: the composed system (GoChannel Layer A + the relay as its
    consumer) keeps the Layer A invariant, every composed run is a Layer A run, and "a settled
    copy carries the relay's verdict" ([relay_consumer] of Relay/OverGoChannel.v) is an INVARIANT
    of the composed system — so the over-GoChannel theorems hold without it as a hypothesis. *)
From WM Require Import Base.Prelude Message.Model Handler.RouterHandle
     Relay.Model Relay.Proofs Relay.Redelivery Relay.RedeliveryProofs Relay.OverGoChannel Relay.Consumer
     GoChannel.Sub GoChannel.SubProofs GoChannel.SubInvX.

Local Open Scope nat_scope.

(** * frame facts about Layer A steps *)
Ltac frame_fin k :=
  simpl; repeat split; intros; auto; try lia; try discriminate;
  repeat match goal with
         | |- context [upd _ ?x _ k] =>
             destruct (Nat.eq_dec k x) as [->|?]; [rewrite !upd_same | rewrite !upd_other by assumption]
         end; simpl; auto; try lia; try congruence.

(** an existing copy keeps its publication and its Sender; only LAck / LNack change a settlement *)
Lemma sstep_frame s l s' k : k < next s -> sstep s l = Some s' ->
  k < next s' /\ c_pub (copies s' k) = c_pub (copies s k) /\ c_thr (copies s' k) = c_thr (copies s k)
  /\ (is_settle l = false -> c_st (copies s' k) = c_st (copies s k)).
Proof.
  intros Hk E.
  destruct l as [t0 q|  | | |t0|t0|t0|t0|t0|t0| |c0|c0]; simpl in E; sstep_cases E; frame_fin k.
Qed.

(** a copy made by a step is unsettled *)
Lemma sstep_new_unsettled s l s' k : SInv s -> is_settle l = false -> sstep s l = Some s' ->
  next s <= k -> c_st (copies s' k) = Unsettled.
Proof.
  intros I Hl E Hk. assert (Hf : copies s k = empty_copy) by (apply (v_fresh _ I); exact Hk).
  destruct l as [t0 q|  | | |t0|t0|t0|t0|t0|t0| |c0|c0]; simpl in Hl; try discriminate;
    simpl in E; sstep_cases E; simpl;
    repeat match goal with
           | |- context [upd _ ?x _ k] =>
               destruct (Nat.eq_dec k x) as [->|?]; [rewrite !upd_same | rewrite !upd_other by assumption]
           end; simpl; rewrite ?Hf; reflexivity.
Qed.

(** settling a received copy: the first settlement wins, the publication stays *)
Lemma settle_step s k (ack : bool) : c_recv (copies s k) = true ->
  exists s', sstep s (if ack then LAck k else LNack k) = Some s'
             /\ next s' = next s
             /\ (forall k', k' <> k -> copies s' k' = copies s k')
             /\ c_pub (copies s' k) = c_pub (copies s k)
             /\ (c_st (copies s k) = Unsettled -> c_st (copies s' k) = if ack then Acked else Nacked).
Proof.
  intros Hr. destruct ack; simpl; rewrite Hr; destruct (c_st (copies s k)) eqn:Es;
    eexists; (split; [reflexivity|]); simpl; repeat split; intros; try congruence;
    rewrite ?upd_same, ?upd_other by assumption; simpl; congruence.
Qed.

Section Consumer.
  Variable dec : N -> option envelope.
  Variable atoi : N -> option Z.
  Variable itoa : Z -> N.
  Variable rk : N.
  Variable c : comp.
  Variable src : N.
  Variable msg_of : pubid -> msg.
  Variable beh : cid -> attempt.

  Notation cstep := (cstep dec atoi itoa rk c src msg_of beh).
  Notation crun := (crun dec atoi itoa rk c src msg_of beh).
  Notation cproj := (cproj dec atoi itoa rk c src msg_of beh).
  Notation relay_of := (relay_of dec atoi itoa rk c src msg_of beh).
  Notation handling := (handling dec atoi itoa rk c src msg_of beh).
  Notation relay_consumer := (relay_consumer dec atoi itoa rk c src msg_of beh).

  Lemma relay_of_handling s k : relay_of s k = handling s k.
  Proof. reflexivity. Qed.

  Lemma relay_of_pub s s' k : c_pub (copies s' k) = c_pub (copies s k) -> relay_of s' k = relay_of s k.
  Proof. unfold Consumer.relay_of. intros ->. reflexivity. Qed.

  Lemma relay_verdict s k : fst (relay_of s k) = Acked \/ fst (relay_of s k) = Nacked.
  Proof. unfold Consumer.relay_of. rewrite run_final. destruct (should_ack _ _ _); auto. Qed.

  (** every composed run is a Layer A run: the same subscription state, by the projected labels *)
  Lemma crun_is_srun ls : forall cs, c_sub (crun cs ls) = srun (c_sub cs) (cproj cs ls).
  Proof.
    induction ls as [|l ls IH]; intros cs; simpl; [reflexivity|].
    destruct (cstep cs l) as [cs'|] eqn:E; [|apply IH].
    simpl. rewrite IH. destruct l as [l0|k]; simpl in E.
    - destruct (is_settle l0); [discriminate|]. destruct (sstep (c_sub cs) l0) eqn:Es; [|discriminate].
      inversion E; subst. reflexivity.
    - destruct (c_recv _ && _); [|discriminate].
      destruct (sstep (c_sub cs) (verdict_label (relay_of (c_sub cs) k) k)) eqn:Es; [|discriminate].
      inversion E; subst. reflexivity.
  Qed.

  (** * the invariant of the composed system *)
  Record CInv (cs : cstate) : Prop := {
    ci_sub : SInv (c_sub cs);
    ci_log : forall k r, In (k, r) (c_log cs) ->
               k < next (c_sub cs) /\ r = relay_of (c_sub cs) k /\ c_st (copies (c_sub cs) k) = fst r;
    ci_settled : forall k, k < next (c_sub cs) -> c_st (copies (c_sub cs) k) <> Unsettled ->
                 handled cs k = true;
    ci_nodup : NoDup (map fst (c_log cs))
  }.

  Lemma cinv_init cap0 fx : CInv (cinit cap0 fx).
  Proof.
    constructor; simpl.
    - apply sinv_init.
    - intros k r [].
    - intros k Hk. lia.
    - constructor.
  Qed.

  Lemma handled_in cs k : handled cs k = true <-> In k (map fst (c_log cs)).
  Proof.
    unfold handled. rewrite existsb_exists. split.
    - intros ([k' r] & Hin & He). simpl in He. apply Nat.eqb_eq in He. subst.
      change k with (fst (k, r)). now apply in_map.
    - intros Hin. apply in_map_iff in Hin as ([k' r] & <- & Hin). exists (k', r). split; [exact Hin|].
      simpl. apply Nat.eqb_refl.
  Qed.

  Lemma cstep_inv cs l cs' : CInv cs -> cstep cs l = Some cs' -> CInv cs'.
  Proof.
    intros [I Hlog Hset Hnd] E. destruct l as [l0|k]; simpl in E.
    - (* a Layer A step that is not a settlement *)
      destruct (is_settle l0) eqn:Hl; [discriminate|].
      destruct (sstep (c_sub cs) l0) as [s'|] eqn:Es; [|discriminate]. inversion E; subst cs'; clear E.
      constructor; simpl.
      + eapply sstep_inv; eassumption.
      + intros k r Hin. destruct (Hlog k r Hin) as (Hk & Hr & Hst).
        destruct (sstep_frame _ _ _ k Hk Es) as (Hk' & Hp & _ & Hs).
        split; [exact Hk'|]. split; [rewrite (relay_of_pub _ _ _ Hp); exact Hr|].
        rewrite Hs by exact Hl. exact Hst.
      + intros k Hk' Hne. unfold handled. simpl.
        destruct (Nat.lt_ge_cases k (next (c_sub cs))) as [Hk|Hk].
        * apply Hset; [exact Hk|]. destruct (sstep_frame _ _ _ k Hk Es) as (_ & _ & _ & Hs).
          rewrite <- Hs by exact Hl. exact Hne.
        * exfalso. apply Hne. eapply sstep_new_unsettled; eassumption.
      + exact Hnd.
    - (* the relay handles a received copy and settles it with its verdict *)
      destruct (c_recv (copies (c_sub cs) k)) eqn:Hr; simpl in E; [|discriminate].
      destruct (handled cs k) eqn:Hh; simpl in E; [discriminate|].
      set (r := relay_of (c_sub cs) k) in *.
      assert (Hk : k < next (c_sub cs)) by (eapply recv_lt; eassumption).
      assert (Hun : c_st (copies (c_sub cs) k) = Unsettled).
      { destruct (c_st (copies (c_sub cs) k)) eqn:Est; [reflexivity| |];
          (assert (Hx : handled cs k = true) by (apply Hset; [exact Hk | rewrite Est; discriminate]); congruence). }
      destruct (settle_step (c_sub cs) k (settle_eqb (fst r) Acked) Hr) as (s' & Es & Hn & Hoth & Hp & Hst).
      unfold verdict_label in E. fold r in E.
      replace (if settle_eqb (fst r) Acked then LAck k else LNack k)
        with (if settle_eqb (fst r) Acked then LAck k else LNack k) in E by reflexivity.
      destruct (settle_eqb (fst r) Acked) eqn:Ev; rewrite Es in E; inversion E; subst cs'; clear E.
      all: assert (Hfst : c_st (copies s' k) = fst r)
        by (rewrite (Hst Hun); destruct (relay_verdict (c_sub cs) k) as [Hv|Hv]; fold r in Hv;
            rewrite Hv in *; simpl in Ev; congruence).
      all: constructor; simpl;
        [ eapply sstep_inv; eassumption
        | intros k0 r0 Hin; apply in_app_or in Hin as [Hin|[Hin|[]]];
          [ destruct (Hlog k0 r0 Hin) as (Hk0 & Hr0 & Hst0);
            assert (Hne : k0 <> k)
              by (intros ->; assert (handled cs k = true)
                    by (apply handled_in; change k with (fst (k, r0)); now apply in_map); congruence);
            rewrite Hn, (Hoth k0 Hne);
            split; [exact Hk0|]; split; [|exact Hst0];
            rewrite Hr0; unfold Consumer.relay_of; rewrite (Hoth k0 Hne); reflexivity
          | inversion Hin; subst k0 r0; rewrite Hn; split; [exact Hk|]; split; [|exact Hfst];
            unfold r; symmetry; apply relay_of_pub; exact Hp ]
        | intros k0 Hk0 Hne; apply handled_in; simpl; rewrite map_app; apply in_or_app;
          destruct (Nat.eq_dec k0 k) as [->|Hd]; [right; now left|];
          left; apply handled_in; apply Hset; [rewrite <- Hn; exact Hk0 | rewrite <- (Hoth k0 Hd); exact Hne]
        | rewrite map_app; simpl; apply NoDup_snoc; [exact Hnd|];
          intros Hin; apply handled_in in Hin; congruence ].
  Qed.

  Lemma crun_inv ls : forall cs, CInv cs -> CInv (crun cs ls).
  Proof.
    induction ls as [|l ls IH]; intros cs I; simpl; [exact I|].
    destruct (cstep cs l) as [cs'|] eqn:E; [|now apply IH]. apply IH. eapply cstep_inv; eassumption.
  Qed.

  (** * [relay_consumer] is an invariant, not a hypothesis *)
  Lemma cinv_relay_consumer cs : CInv cs -> relay_consumer (c_sub cs).
  Proof.
    intros [I Hlog Hset Hnd] k Hk Hne.
    assert (Hh : handled cs k = true) by now apply Hset.
    apply handled_in, in_map_iff in Hh as ([k' r] & Hf & Hin). simpl in Hf. subst k'.
    destruct (Hlog k r Hin) as (_ & Hr & Hst). rewrite Hst, Hr. reflexivity.
  Qed.

  Theorem composed_relay_consumer cap0 fx ls : relay_consumer (c_sub (crun (cinit cap0 fx) ls)).
  Proof. apply cinv_relay_consumer, crun_inv, cinv_init. Qed.

  (** * the over-GoChannel theorems for the composed system *)

  (** no double forwarding: when a later copy of the same Sender exists, every earlier copy was
      nacked by the relay and the destination accepted nothing of it *)
  Theorem composed_at_most_once cap0 fx ls :
    let s := c_sub (crun (cinit cap0 fx) ls) in
    forall k1 k2, k1 < k2 -> k2 < next s -> c_thr (copies s k1) = c_thr (copies s k2) ->
    c_st (copies s k1) = Nacked /\ accepted_pubs (relay_of s k1) = [].
  Proof.
    intros s k1 k2 H12 H2 Ht. pose proof (composed_relay_consumer cap0 fx ls) as Hc. fold s in Hc.
    unfold s in *. rewrite crun_is_srun in *. simpl in *.
    exact (at_most_once_over_gochannel dec atoi itoa rk c src msg_of beh cap0 fx _ Hc k1 k2 H12 H2 Ht).
  Qed.

  (** an acked copy of a relayable message was handed to the destination, accepted, intact *)
  Theorem composed_acked_was_relayed cap0 fx ls :
    let s := c_sub (crun (cinit cap0 fx) ls) in
    forall k, k < next s -> c_st (copies s k) = Acked ->
    forall t m, dest dec c src (gochan_copy (msg_of (c_pub (copies s k)))) = Some (t, m) ->
    accepted_pubs (relay_of s k) = [(t, [relayed atoi itoa rk c m])].
  Proof.
    intros s k Hk Ha t m Hd. pose proof (composed_relay_consumer cap0 fx ls) as Hc. fold s in Hc.
    unfold s in *. rewrite crun_is_srun in *. simpl in *.
    exact (acked_copy_was_relayed dec atoi itoa rk c src msg_of beh cap0 fx _ Hc k Hk Ha t m Hd).
  Qed.

  (** the log is exactly what the relay did: every entry is the relay's result on a fresh copy of
      the publication's message, the copy carries its verdict, no copy is handled twice; and of
      two handled copies of the same Sender at most one has anything accepted by the destination *)
  Theorem composed_log_sound cap0 fx ls :
    let cs := crun (cinit cap0 fx) ls in
    NoDup (map fst (c_log cs))
    /\ (forall k r, In (k, r) (c_log cs) ->
          k < next (c_sub cs) /\ r = relay_of (c_sub cs) k /\ c_st (copies (c_sub cs) k) = fst r)
    /\ (forall k1 r1 k2 r2, In (k1, r1) (c_log cs) -> In (k2, r2) (c_log cs) -> k1 <> k2 ->
          c_thr (copies (c_sub cs) k1) = c_thr (copies (c_sub cs) k2) ->
          accepted_pubs r1 = [] \/ accepted_pubs r2 = []).
  Proof.
    intros cs. assert (I : CInv cs) by apply crun_inv, cinv_init. destruct I as [I Hlog Hset Hnd].
    split; [exact Hnd|]. split.
    - intros k r Hin. exact (Hlog k r Hin).
    - intros k1 r1 k2 r2 H1 H2 Hne Ht.
      destruct (Hlog k1 r1 H1) as (Hk1 & Hr1 & _). destruct (Hlog k2 r2 H2) as (Hk2 & Hr2 & _).
      destruct (Nat.lt_ge_cases k1 k2) as [Hlt|Hge].
      + left. rewrite Hr1. exact (proj2 (composed_at_most_once cap0 fx ls k1 k2 Hlt Hk2 Ht)).
      + right. rewrite Hr2. assert (Hlt : k2 < k1) by lia.
        exact (proj2 (composed_at_most_once cap0 fx ls k2 k1 Hlt Hk1 (eq_sym Ht))).
  Qed.

  (** the consumer never blocks the subscription: a received copy that was not handled yet can be
      handled (and is then settled); a copy the relay nacked is offered again by Layer A *)
  Theorem composed_handle_enabled cs k : c_recv (copies (c_sub cs) k) = true -> handled cs k = false ->
    exists cs', cstep cs (CHandle k) = Some cs' /\ handled cs' k = true.
  Proof.
    intros Hr Hh. simpl. rewrite Hr, Hh. simpl.
    destruct (settle_step (c_sub cs) k (settle_eqb (fst (relay_of (c_sub cs) k)) Acked) Hr) as (s' & Es & _).
    unfold verdict_label.
    destruct (settle_eqb (fst (relay_of (c_sub cs) k)) Acked); rewrite Es; eexists; (split; [reflexivity|]);
      apply handled_in; simpl; rewrite map_app; apply in_or_app; right; now left.
  Qed.
End Consumer.
