(** Computed witnesses for Relay/Redelivery.v. *)
From WM Require Import Base.Prelude Message.Model Handler.RouterHandle Relay.Model Relay.Proofs
     Relay.Witness Relay.Redelivery.
Open Scope N_scope.

Definition w_rq : comp := CRequeuer (fun _ => Some 7) 0.
Definition w_41 : msg := Msg 2 3 (Some [(w_rk, w_itoa 41)]).
Definition w_fail_then_ok : list attempt := [(false, PubError); (false, PubPanic); (false, PubAccept)].

(** a source that re-emits the SAME object after a Nack: the requeuer has already written the
    raised counter into it before the destination failed, so the counter counts attempts (44),
    not requeues; a GoChannel-like source (fresh copy of the original) gives 42 *)
Lemma same_object_counts_attempts :
  all_accepted (fst (redeliver w_dec w_atoi w_itoa w_rk SameObject w_rq 1 w_41 w_fail_then_ok))
    = [(7, [Msg 2 3 (Some [(w_rk, w_itoa 44)])])]
  /\ snd (redeliver w_dec w_atoi w_itoa w_rk SameObject w_rq 1 w_41 w_fail_then_ok)
    = Msg 2 3 (Some [(w_rk, w_itoa 44)])
  /\ all_accepted (fst (redeliver w_dec w_atoi w_itoa w_rk FreshCopy w_rq 1 w_41 w_fail_then_ok))
    = [(7, [Msg 2 3 (Some [(w_rk, w_itoa 42)])])]
  /\ snd (redeliver w_dec w_atoi w_itoa w_rk FreshCopy w_rq 1 w_41 w_fail_then_ok) = w_41.
Proof. vm_compute. repeat split; reflexivity. Qed.

(** three rounds, the second one never accepted: two successful requeues, 41 -> 43 *)
Lemma rounds_witness :
  requeue_rounds w_dec w_atoi w_itoa w_rk (fun _ => Some 7) 0 1 w_41
    [w_fail_then_ok; [(false, PubError); (false, PubError)]; [(false, PubAccept)]]
  = (Msg 2 3 (Some [(w_rk, w_itoa 43)]), 2%nat).
Proof. vm_compute. reflexivity. Qed.
