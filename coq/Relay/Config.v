(** Forwarder / Publisher configuration (components/forwarder/forwarder.go Config.setDefaults,
    Config.Validate, NewForwarder's use of them; publisher.go PublisherConfig.setDefaults / Validate).
    Executable; no proofs here.  Durations in nanoseconds. *)
From WM Require Import Base.Prelude Message.Model Handler.RouterHandle Relay.Model.
Open Scope N_scope.

Definition default_close_timeout : Z := 30000000000.       (* time.Second * 30 *)

Record fwd_cfg := FCfg { fc_topic : N; fc_timeout : Z }.

(** Config.setDefaults: zero CloseTimeout -> 30 s, empty ForwarderTopic -> the default topic *)
Definition fwd_set_defaults (dflt : N) (c : fwd_cfg) : fwd_cfg :=
  FCfg (eff_topic dflt (fc_topic c))
       (if (fc_timeout c =? 0)%Z then default_close_timeout else fc_timeout c).

(** Config.Validate / PublisherConfig.Validate: only an empty forwarder topic is refused *)
Definition fwd_validate (c : fwd_cfg) : bool := negb (fc_topic c =? 0).

(** NewForwarder: setDefaults, RouterConfig.Validate (which accepts everything), AddNoPublisherHandler
    on the effective topic.  It never refuses a configuration; result: the topic it will subscribe to *)
Definition forwarder_new (dflt : N) (c : fwd_cfg) : ctor_res * N :=
  (NewOk, fc_topic (fwd_set_defaults dflt c)).

(** NewPublisher: setDefaults; Publish sends to the effective topic *)
Definition publisher_topic (dflt : N) (cfg_topic : N) : N := eff_topic dflt cfg_topic.
