(** A relay component as the consumer of a GoChannel subscription: composition of the relay
    model (Relay/Model.v, [run]) with Layer A of the GoChannel model (GoChannel/Sub.v, the
    per-subscription send protocol, invariant [SInv] of GoChannel/SubProofs.v).

    The subscription is the component's SOURCE: every delivered copy [k] is handled by the relay
    ([run] on a fresh message.Copy() of the publication's message) and settled with [run]'s
    verdict.  Layer A says when a further copy of the same publication is made; together:
    a message is handed to the destination successfully at most once per publication, exactly
    once when its copy is acked, and after a Nack it is offered again, unchanged. *)
From WM Require Import Base.Prelude Message.Model Handler.RouterHandle
     Relay.Model Relay.Proofs Relay.Redelivery Relay.RedeliveryProofs
     GoChannel.Sub GoChannel.SubProofs.

Local Open Scope nat_scope.

Section OverGoChannel.
  Variable dec : N -> option envelope.
  Variable atoi : N -> option Z.
  Variable itoa : Z -> N.
  Variable rk : N.
  Variable c : comp.
  Variable src : N.
  Variable msg_of : pubid -> msg.        (* the message of publication p on the source topic *)
  Variable beh : cid -> attempt.         (* context / destination behaviour while copy k is handled *)

  (** what the relay does with delivered copy k *)
  Definition handling (s : sstate) (k : cid) : settle * list ev :=
    run dec atoi itoa rk c
        (Inp src (gochan_copy (msg_of (c_pub (copies s k)))) (fst (beh k)) (snd (beh k))).

  (** the consumer of the subscription is the relay: a settled copy carries [run]'s verdict *)
  Definition relay_consumer (s : sstate) : Prop :=
    forall k, k < next s -> c_st (copies s k) <> Unsettled -> c_st (copies s k) = fst (handling s k).

  (** never double-forwarded: when a later copy of the same Sender (= the same publication to this
      subscription) exists, the destination did not accept the relay of any earlier copy *)
  Theorem at_most_once_over_gochannel cap0 fx ls :
    let s := srun (sinit cap0 fx) ls in
    relay_consumer s ->
    forall k1 k2, k1 < k2 -> k2 < next s -> c_thr (copies s k1) = c_thr (copies s k2) ->
    c_st (copies s k1) = Nacked /\ accepted_pubs (handling s k1) = [].
  Proof.
    intros s Hc k1 k2 H12 H2 Ht.
    assert (Hn : c_st (copies s k1) = Nacked) by (apply (no_duplicate_without_nack cap0 fx ls k1 k2); assumption).
    split; [exact Hn|]. apply not_acked_not_accepted. change (fst (handling s k1) <> Acked).
    rewrite <- (Hc k1); [rewrite Hn; discriminate | lia | rewrite Hn; discriminate].
  Qed.

  (** not lost: a copy is acked only when the destination accepted its relay (or the component
      legitimately drops it: invalid envelope with AckWhenCannotUnwrap); a copy whose relay the
      destination did not accept is nacked, and Layer A then offers the message again *)
  Theorem acked_copy_was_relayed cap0 fx ls :
    let s := srun (sinit cap0 fx) ls in
    relay_consumer s ->
    forall k, k < next s -> c_st (copies s k) = Acked ->
    forall t m, dest dec c src (gochan_copy (msg_of (c_pub (copies s k)))) = Some (t, m) ->
    accepted_pubs (handling s k) = [(t, [relayed atoi itoa rk c m])].
  Proof.
    intros s Hc k Hk Ha t m Hd.
    assert (Hr : fst (handling s k) = Acked) by (rewrite <- (Hc k Hk); [exact Ha | rewrite Ha; discriminate]).
    unfold handling in *. set (i := Inp src _ _ _) in *.
    apply (run_ack_iff dec atoi itoa rk c i) in Hr. unfold should_ack in Hr.
    unfold accepted_pubs. rewrite run_accepted_full, run_pubs.
    destruct (source_of dec c i) as [[t' m']|] eqn:Es.
    - apply source_of_dest in Es. unfold i in Es. simpl in Es. rewrite Hd in Es. inversion Es; subst.
      destruct (i_pb i); try discriminate. reflexivity.
    - exfalso. destruct c as [[|]|tgt| |gen delay]; try discriminate.
      unfold dest, Model.source_of in *. unfold i in Es. simpl in *. rewrite Hd in Es. discriminate.
  Qed.

  (** redelivered after a Nack (Layer A, restated for the relay): the Sender whose copy the relay
      nacked goes back to the loop head and, unless the subscription is closing, offers a fresh
      unsettled copy of the SAME publication — so the relay sees the same message again *)
  Theorem nacked_copy_is_offered_again s t p k : SInv s ->
    thr s t = SWait p k -> c_st (copies s k) = Nacked ->
    exists s1, sstep s (LSeeNacked t) = Some s1 /\ thr s1 t = SHead p
    /\ (closedf s1 = false -> fixed s1 && closing s1 = false ->
        exists s2, sstep s1 (LStep t) = Some s2 /\ thr s2 t = SSend p (next s1)
                   /\ c_pub (copies s2 (next s1)) = p /\ c_st (copies s2 (next s1)) = Unsettled).
  Proof. exact (redelivery_after_nack s t p k). Qed.
End OverGoChannel.
