(** Redelivery of one message to a relay component (property C17, round "proofs").
    Executable; no proofs here.

    A source keeps an ORIGINAL message and hands it to the component again after every Nack,
    until an Ack.  Two kinds of source:
      [FreshCopy]   GoChannel (pubsub.go sendMessageToSubscriber: msgToSend := msg.Copy() at the head
                    of the send loop; `continue SendToSubscriber` on Nacked): every attempt gets
                    a fresh copy of the original, what the handler writes into the delivered
                    object is lost;
      [SameObject]  a subscriber that re-emits the very object it emitted before.
    [consumed_after] is what the delivered object looks like once the handler returned: only the
    Requeuer writes into it (msg.Metadata.Set before Publish, requeuer.go l.145). *)
From WM Require Import Base.Prelude Message.Model Handler.RouterHandle Relay.Model.
Open Scope N_scope.

Section Redeliver.
  Variable dec : N -> option envelope.
  Variable atoi : N -> option Z.
  Variable itoa : Z -> N.
  Variable rk : N.

  Definition consumed_after (c : comp) (i : input) : msg :=
    match c with
    | CRequeuer gen delay =>
        if (0 <? delay)%Z && i_ctxdone i then i_msg i
        else match gen (i_msg i), mmeta (i_msg i) with
             | Some _, Some l => requeued atoi itoa rk (i_msg i) l
             | _, _ => i_msg i
             end
    | _ => i_msg i
    end.

  Inductive source_mode := FreshCopy | SameObject.

  (** one delivery attempt: is the message context done during the requeuer's delay; what the
      destination does with the call of this attempt *)
  Definition attempt := (bool * pubbeh)%type.

  Definition delivered_obj (mode : source_mode) (obj : msg) : msg :=
    match mode with FreshCopy => gochan_copy obj | SameObject => obj end.

  (** the attempts that really happen (the source stops after the first Ack) with their
      outcome, and the source's object afterwards *)
  Fixpoint redeliver (mode : source_mode) (c : comp) (src : N) (obj : msg) (beh : list attempt)
    : list (settle * list ev) * msg :=
    match beh with
    | [] => ([], obj)
    | (cd, pb) :: rest =>
        let i := Inp src (delivered_obj mode obj) cd pb in
        let r := run dec atoi itoa rk c i in
        let obj' := match mode with FreshCopy => obj | SameObject => consumed_after c i end in
        match fst r with
        | Acked => ([r], obj')
        | _ => let '(rs, o) := redeliver mode c src obj' rest in (r :: rs, o)
        end
    end.

  (** everything the destination ACCEPTED in a list of attempts *)
  Definition accepted_pubs (r : settle * list ev) : list (N * list msg) :=
    if accepted (snd r) then map (fun x => (fst (fst x), snd (fst x))) (pubs (snd r)) else [].
  Definition all_accepted (rs : list (settle * list ev)) : list (N * list msg) :=
    flat_map accepted_pubs rs.
  Definition n_acked (rs : list (settle * list ev)) : nat :=
    length (filter (fun r => settle_eqb (fst r) Acked) rs).

  (** ** the acceptor for an observed redelivery history of one message from a GoChannel-like
      source: every attempt on its own passes the C17 acceptor for a fresh copy of the original;
      no attempt before the last one was acked; the destination accepted at most once; the
      original is as it was *)
  Fixpoint attempts_ok (c : comp) (src : N) (obj : msg) (beh : list attempt) (obs : list (settle * list ev)) {struct obs} : bool :=
    match obs, beh with
    | [], _ => true
    | r :: obs', (cd, pb) :: beh' =>
        relay_monitor dec atoi rk c (Inp src (gochan_copy obj) cd pb) (snd r) (fst r)
        && attempts_ok c src obj beh' obs'
    | _ :: _, [] => false
    end.
  Definition same_content (a b : msg) : bool :=
    (uuid a =? uuid b) && (payload a =? payload b) && meta_eqb (content (mmeta a)) (content (mmeta b)).
  Definition redelivery_monitor (c : comp) (src : N) (obj : msg) (beh : list attempt)
             (obs : list (settle * list ev)) (after : msg) : bool :=
    attempts_ok c src obj beh obs
    && forallb (fun r => negb (settle_eqb (fst r) Acked)) (removelast obs)
    && Nat.leb (length (all_accepted obs)) 1
    && same_content after obj.

  (** a message that is requeued again and again: every round is a redelivery sequence from a
      GoChannel-like source; a round that ends with an Ack hands the relayed copy on (it comes
      back to the requeue topic later, as the next round's original).
      Result: the message now, and how many rounds requeued it. *)
  Fixpoint requeue_rounds (gen : msg -> option N) (delay : Z) (src : N) (obj : msg)
           (rounds : list (list attempt)) : msg * nat :=
    match rounds with
    | [] => (obj, 0%nat)
    | beh :: rest =>
        let rs := fst (redeliver FreshCopy (CRequeuer gen delay) src obj beh) in
        match all_accepted rs with
        | (_, [m']) :: _ => let '(o, n) := requeue_rounds gen delay src m' rest in (o, S n)
        | _ => requeue_rounds gen delay src obj rest
        end
    end.

  (** ** streams: many consumed messages, each with its own redelivery history *)
  Record item := Item { it_src : N; it_msg : msg; it_beh : list attempt }.
  Definition stream_run (mode : source_mode) (c : comp) (items : list item) : list (list (settle * list ev)) :=
    map (fun it => fst (redeliver mode c (it_src it) (it_msg it) (it_beh it))) items.
  (** what the destination ends up with, in stream order *)
  Definition stream_accepted (mode : source_mode) (c : comp) (items : list item) : list (N * list msg) :=
    flat_map all_accepted (stream_run mode c items).
End Redeliver.
