(** Concrete instances of the oracles of Relay/Model.v: they show that the hypotheses of the
    C17 theorems are satisfiable, and pin the boundary behaviours with computed witnesses. *)
From WM Require Import Base.Prelude Message.Model Handler.RouterHandle Relay.Model Relay.Proofs.
Open Scope N_scope.

(** a strconv: the string number of z is z - MinInt64 + 1 (so 0 = "" is not a number) *)
Definition w_itoa (z : Z) : N := Z.to_N (z - min64 + 1).
Definition w_atoi (n : N) : option Z :=
  if n =? 0 then None
  else let z := (Z.of_N n + min64 - 1)%Z in if (z <=? max64)%Z then Some z else None.

Lemma w_atoi_range s z : w_atoi s = Some z -> in64 z.
Proof.
  unfold w_atoi, in64, min64, max64. destruct (s =? 0) eqn:E; [discriminate|]. apply N.eqb_neq in E.
  destruct (Z.of_N s + -9223372036854775808 - 1 <=? 9223372036854775807)%Z eqn:L; [|discriminate].
  apply Z.leb_le in L. intros H. inversion H. lia.
Qed.
Lemma w_atoi_itoa z : in64 z -> w_atoi (w_itoa z) = Some z.
Proof.
  unfold w_atoi, w_itoa, in64, min64, max64. intros H.
  destruct (Z.to_N (z - -9223372036854775808 + 1) =? 0) eqn:E.
  - apply N.eqb_eq in E. lia.
  - rewrite Z2N.id by lia.
    destruct (z - -9223372036854775808 + 1 + -9223372036854775808 - 1 <=? 9223372036854775807)%Z eqn:L.
    + f_equal. lia.
    + apply Z.leb_gt in L. lia.
Qed.
Lemma w_atoi_zero : w_atoi 0 = None.
Proof. reflexivity. Qed.

(** a codec that is right on one envelope *)
Definition w_msg : msg := Msg 1 2 (Some [(4, 6)]).
Definition w_enc (e : envelope) : N := 5.
Definition w_dec (p : N) : option envelope := if p =? 5 then Some (mk_env 3 w_msg) else None.
Definition w_san (s : N) : N := s.
Lemma w_san_zero s : w_san s = 0 <-> s = 0.
Proof. unfold w_san. tauto. Qed.
Lemma w_codec_ok m : In m [w_msg] -> codec_ok_on w_enc w_dec w_san (mk_env 3 m).
Proof. intros [<-|[]]. reflexivity. Qed.

(** retries counter at MaxInt64: the requeued copy reads MinInt64, not MaxInt64 + 1 *)
Definition w_rk : N := 9.
Definition w_max_msg : msg := Msg 1 2 (Some [(w_rk, w_itoa max64)]).
Lemma counter_at_maxint :
  exists m l, mmeta m = Some l /\ counter w_atoi w_rk (mmeta m) = max64
              /\ w_atoi (get_str w_rk (mmeta (requeued w_atoi w_itoa w_rk m l))) = Some min64
              /\ min64 <> (max64 + 1)%Z.
Proof.
  exists w_max_msg, [(w_rk, w_itoa max64)]. split; [reflexivity|]. split; [vm_compute; reflexivity|].
  split; [vm_compute; reflexivity|]. unfold min64, max64. lia.
Qed.
