(** The MessageTransform subscriber decorator in front of ONE subscription
    (message/decorator.go: messageTransformSubscriberDecorator.Subscribe's pump goroutine and
    Close).

      pump:   for msg := range in { transform(msg); out <- msg }; close(out); wg.Done()
      Close:  err := sub.Close(); wg.Wait(); return err

    [fixed] selects the D8 repair: the send becomes  select { out <- msg | <-ctx.Done() | <-t.closing }
    and Close closes t.closing before waiting.  [fixed = false] is the pinned code.

    Environment labels: the inner subscriber delivering a message / closing its channel (it
    does so after its own Close or after the Subscribe context was cancelled - that is Layer A
    of GoChannel), the consumer receiving from the decorated channel, the caller cancelling
    the context or calling Close.  No proofs here. *)
From WM Require Import Base.Prelude.

Definition msg := nat.

Inductive ppc :=
| PRecv                  (* at  for msg := range in  *)
| PSend (m : msg)        (* transformed, at  out <- msg  (or the select of the repair) *)
| PCloseOut              (* in is closed: about to close(out) *)
| PWgDone                (* about to wg.Done() *)
| PDone.

Inductive cpc :=
| CNone                  (* Close not called *)
| CInner                 (* inside sub.Close() *)
| CSignal                (* inner Close returned; (repair) about to close(t.closing) *)
| CWait                  (* wg.Wait() *)
| CDone.

Record pstate := PS {
  fixed : bool;
  pump : ppc;
  closer : cpc;
  in_closed : bool;         (* the inner subscription's channel is closed and drained (what  range in  observes) *)
  inner_closed : bool;      (* sub.Close() has been called (in progress or returned) *)
  ctx_done : bool;          (* the Subscribe context was cancelled *)
  closing : bool;           (* t.closing is closed (repair only) *)
  out_closed : bool;
  wg : nat;
  delivered : list msg;     (* received by the consumer, oldest first *)
  taken : list msg;         (* taken from the inner channel, oldest first *)
  dropped : list msg;       (* (repair) taken but given up because of ctx / closing *)
  panicked : bool
}.

Inductive plabel :=
| LIn (m : msg)            (* inner subscription hands m to the pump *)
| LInClose                 (* inner subscription closes its channel *)
| LPump                    (* deterministic next step of the pump *)
| LOutRecv                 (* consumer receives from the decorated channel *)
| LSeeCtx                  (* (repair) select: <-ctx.Done() *)
| LSeeClosing              (* (repair) select: <-t.closing *)
| LCancel                  (* caller cancels the Subscribe context *)
| LCloseCall               (* caller calls Close on the decorated subscriber *)
| LCloseStep.              (* deterministic next step of Close *)

Definition pinit (fx : bool) : pstate :=
  PS fx PRecv CNone false false false false false 1 [] [] [] false.

Definition set_pump s p := PS (fixed s) p (closer s) (in_closed s) (inner_closed s) (ctx_done s) (closing s) (out_closed s) (wg s) (delivered s) (taken s) (dropped s) (panicked s).
Definition set_closer s c := PS (fixed s) (pump s) c (in_closed s) (inner_closed s) (ctx_done s) (closing s) (out_closed s) (wg s) (delivered s) (taken s) (dropped s) (panicked s).

Definition pstep (s : pstate) (l : plabel) : option pstate :=
  match l with
  | LIn m =>
      match pump s with
      | PRecv => if in_closed s then None
                 else Some (PS (fixed s) (PSend m) (closer s) (in_closed s) (inner_closed s) (ctx_done s) (closing s) (out_closed s) (wg s) (delivered s) (taken s ++ [m]) (dropped s) (panicked s))
      | _ => None
      end
  | LInClose =>
      (* the inner subscription closes its channel only after its Close was called or the cancel *)
      if in_closed s then None
      else if inner_closed s || ctx_done s
           then Some (PS (fixed s) (pump s) (closer s) true (inner_closed s) (ctx_done s) (closing s) (out_closed s) (wg s) (delivered s) (taken s) (dropped s) (panicked s))
           else None
  | LPump =>
      match pump s with
      | PRecv => if in_closed s then Some (set_pump s PCloseOut) else None
      | PCloseOut => Some (PS (fixed s) PWgDone (closer s) (in_closed s) (inner_closed s) (ctx_done s) (closing s) true (wg s) (delivered s) (taken s) (dropped s) (panicked s || out_closed s))
      | PWgDone => match wg s with
                   | O => Some (PS (fixed s) PDone (closer s) (in_closed s) (inner_closed s) (ctx_done s) (closing s) (out_closed s) O (delivered s) (taken s) (dropped s) true)
                   | S n => Some (PS (fixed s) PDone (closer s) (in_closed s) (inner_closed s) (ctx_done s) (closing s) (out_closed s) n (delivered s) (taken s) (dropped s) (panicked s))
                   end
      | _ => None
      end
  | LOutRecv =>
      match pump s with
      | PSend m => Some (PS (fixed s) PRecv (closer s) (in_closed s) (inner_closed s) (ctx_done s) (closing s) (out_closed s) (wg s) (delivered s ++ [m]) (taken s) (dropped s) (panicked s || out_closed s))
      | _ => None
      end
  | LSeeCtx =>
      match pump s with
      | PSend m => if fixed s && ctx_done s
                   then Some (PS (fixed s) PRecv (closer s) (in_closed s) (inner_closed s) (ctx_done s) (closing s) (out_closed s) (wg s) (delivered s) (taken s) (dropped s ++ [m]) (panicked s))
                   else None
      | _ => None
      end
  | LSeeClosing =>
      match pump s with
      | PSend m => if fixed s && closing s
                   then Some (PS (fixed s) PRecv (closer s) (in_closed s) (inner_closed s) (ctx_done s) (closing s) (out_closed s) (wg s) (delivered s) (taken s) (dropped s ++ [m]) (panicked s))
                   else None
      | _ => None
      end
  | LCancel => Some (PS (fixed s) (pump s) (closer s) (in_closed s) (inner_closed s) true (closing s) (out_closed s) (wg s) (delivered s) (taken s) (dropped s) (panicked s))
  | LCloseCall => match closer s with
                  | CNone => Some (PS (fixed s) (pump s) CInner (in_closed s) true (ctx_done s) (closing s) (out_closed s) (wg s) (delivered s) (taken s) (dropped s) (panicked s))
                  | _ => None end
  | LCloseStep =>
      match closer s with
      | CInner => Some (set_closer s CSignal)            (* sub.Close() returns *)
      | CSignal => Some (PS (fixed s) (pump s) CWait (in_closed s) (inner_closed s) (ctx_done s) (closing s || fixed s) (out_closed s) (wg s) (delivered s) (taken s) (dropped s) (panicked s))
      | CWait => match wg s with O => Some (set_closer s CDone) | S _ => None end
      | _ => None
      end
  end.

Fixpoint prun (s : pstate) (ls : list plabel) : pstate :=
  match ls with
  | [] => s
  | l :: ls' => match pstep s l with Some s' => prun s' ls' | None => prun s ls' end
  end.

Fixpoint preplay (s : pstate) (ls : list plabel) (i : nat) : nat * pstate :=
  match ls with
  | [] => (0, s)
  | l :: ls' => match pstep s l with Some s' => preplay s' ls' (S i) | None => (S i, s) end
  end.

(** labels that need neither the consumer nor a new message from the inner subscription *)
Definition internal_labels : list plabel := [LInClose; LPump; LSeeCtx; LSeeClosing; LCloseStep].
Definition can_move (s : pstate) : bool :=
  existsb (fun l => match pstep s l with Some _ => true | None => false end) internal_labels.
