(** Invariants of the decorator pump (Decorator/Pump.v), every schedule, both variants. *)
From WM Require Import Base.Prelude Decorator.Pump.

Definition pump_before_done (p : ppc) : bool :=
  match p with PDone => false | _ => true end.

Record PInv (s : pstate) : Prop := {
  q_nopanic : panicked s = false;
  q_wg : wg s = if pump_before_done (pump s) then 1 else 0;
  q_out : out_closed s = match pump s with PWgDone | PDone => true | _ => false end;
  q_in : match pump s with PCloseOut | PWgDone | PDone => in_closed s = true | _ => True end;
  q_inclosed : in_closed s = true -> inner_closed s = true \/ ctx_done s = true;
  q_inner : inner_closed s = match closer s with CNone => false | _ => true end;
  q_closing : closing s = match closer s with CWait | CDone => fixed s | _ => false end;
  q_done : closer s = CDone -> pump s = PDone;
  q_count : length (taken s) = length (delivered s) + length (dropped s) + match pump s with PSend _ => 1 | _ => 0 end;
  q_nodrop : fixed s = false -> dropped s = []
}.

Lemma pinv_init fx : PInv (pinit fx).
Proof. constructor; simpl; auto; try congruence. Qed.

Ltac crush :=
  simpl in *; rewrite ?app_length in *; simpl in *;
  try solve [auto | congruence | lia | intuition congruence | intuition lia].

Theorem pstep_inv s l s' : PInv s -> pstep s l = Some s' -> PInv s'.
Proof.
  intros I E. destruct I as [Hp Hw Ho Hi Hic Hn Hc Hd Hk Hnd].
  destruct s as [fx pu cl ic inc cd clg oc w dl tk dr pn]. simpl in *.
  destruct l; simpl in E;
    repeat match type of E with
           | context [match ?x with _ => _ end] => destruct x eqn:?; try discriminate
           | context [if ?x then _ else _] => destruct x eqn:?; try discriminate
           end;
    inversion E; subst; clear E; constructor; crush.
  all: try (destruct inc; crush).
  all: try (destruct cd; crush).
  all: try (destruct pu; crush).
  all: try (destruct cl; crush).
  all: try (destruct fx; crush).
Qed.

Theorem prun_inv ls : forall s, PInv s -> PInv (prun s ls).
Proof.
  induction ls as [|l ls IH]; intros s I; simpl; [exact I|].
  destruct (pstep s l) eqn:E; [apply IH; eapply pstep_inv; eauto | apply IH; exact I].
Qed.

(** C07: the decorated channel is closed at most once, the WaitGroup never goes negative -
    every schedule, both variants *)
Theorem pump_no_panic fx ls : panicked (prun (pinit fx) ls) = false.
Proof. apply q_nopanic, prun_inv, pinv_init. Qed.

Lemma pstep_fixed s l s' : pstep s l = Some s' -> fixed s' = fixed s.
Proof.
  destruct s; destruct l; simpl; intros E;
    repeat match type of E with
           | context [match ?x with _ => _ end] => destruct x eqn:?; try discriminate
           | context [if ?x then _ else _] => destruct x eqn:?; try discriminate
           end; inversion E; reflexivity.
Qed.
Lemma prun_fixed ls : forall s, fixed (prun s ls) = fixed s.
Proof.
  induction ls as [|l ls IH]; intros s; simpl; [reflexivity|].
  destruct (pstep s l) eqn:E; [rewrite IH; eapply pstep_fixed; eauto | apply IH].
Qed.

(** C07, repaired decorator: while a Close call is in progress, or after the context was
    cancelled, and the pump has not finished, something can move WITHOUT the consumer reading
    and without a new message: Close / cancel are never stuck behind an unread channel *)
Theorem fixed_close_never_stuck ls :
  let s := prun (pinit true) ls in
  (match closer s with CInner | CSignal | CWait => True | _ => False end
   \/ (ctx_done s = true /\ pump s <> PDone)) ->
  can_move s = true.
Proof.
  intros s0. assert (I : PInv s0) by apply prun_inv, pinv_init.
  assert (Hf : fixed s0 = true) by (unfold s0; rewrite prun_fixed; reflexivity).
  clearbody s0. intros H.
  destruct I as [Hp Hw Ho Hi Hic Hn Hc Hd Hk Hnd].
  destruct s0 as [fx pu cl ic inc cd clg oc w dl tk dr pn]. simpl in *. subst fx.
  unfold can_move, internal_labels; simpl.
  destruct H as [H | [Hcx Hnd']].
  - destruct cl; try contradiction; destruct pu; destruct ic; subst; simpl in *; crush.
    all: try (subst w; reflexivity).
  - subst cd. destruct pu; destruct ic; destruct inc; destruct cl; simpl in *; crush.
    all: subst w; reflexivity.
Qed.

(** D8: the pinned decorator.  One message taken by the pump, nobody reads, Close is called:
    Close waits for the pump, the pump waits for the consumer - nothing can move, the decorated
    channel is never closed. *)
Definition d8_schedule : list plabel := [LIn 1; LCloseCall; LCloseStep; LInClose; LCloseStep].
Theorem d8_close_hangs :
  let s := prun (pinit false) d8_schedule in
  closer s = CWait /\ pump s = PSend 1 /\ can_move s = false /\ out_closed s = false /\ panicked s = false.
Proof. vm_compute. repeat split; reflexivity. Qed.
(** ... and after a cancel instead of a Close: the outer channel is never closed *)
Definition d8_cancel_schedule : list plabel := [LIn 1; LCancel; LInClose].
Theorem d8_cancel_never_closes :
  let s := prun (pinit false) d8_cancel_schedule in
  ctx_done s = true /\ pump s = PSend 1 /\ can_move s = false /\ out_closed s = false.
Proof. vm_compute. repeat split; reflexivity. Qed.
(** the same schedules on the repaired decorator run to completion *)
Theorem d8_fixed_witness :
  let s := prun (pinit true) (d8_schedule ++ [LSeeClosing; LPump; LPump; LPump; LCloseStep]) in
  closer s = CDone /\ pump s = PDone /\ out_closed s = true /\ dropped s = [1] /\ panicked s = false.
Proof. vm_compute. repeat split; reflexivity. Qed.

(** every internal step strictly decreases this measure: Close / cancel terminate *)
Definition pump_rank (p : ppc) : nat :=
  match p with PSend _ => 4 | PRecv => 3 | PCloseOut => 2 | PWgDone => 1 | PDone => 0 end.
Definition closer_rank (c : cpc) : nat :=
  match c with CNone => 4 | CInner => 3 | CSignal => 2 | CWait => 1 | CDone => 0 end.
Definition measure (s : pstate) : nat :=
  pump_rank (pump s) + closer_rank (closer s) + (if in_closed s then 0 else 1).

Theorem internal_step_decreases s l s' :
  In l internal_labels -> pstep s l = Some s' -> measure s' < measure s.
Proof.
  intros Hl E. unfold measure. simpl in Hl.
  destruct Hl as [<-|[<-|[<-|[<-|[<-|[]]]]]]; simpl in E;
    repeat match type of E with
           | context [match ?x with _ => _ end] => destruct x eqn:?; try discriminate
           end; inversion E; subst; simpl; try lia.
  all: repeat match goal with H : ?x = _ |- context [?x] => rewrite H end; simpl; lia.
Qed.
