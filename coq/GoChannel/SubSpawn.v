(** Layer A helper lemmas for the composition (GoChannel/Compose.v): what a batch of
    [LSpawn p p] labels (thread id = publication id) does to the thread map; threads never
    return to SNone; SDone is final along runs. *)
From WM Require Import Base.Prelude Message.Model GoChannel.Sub GoChannel.SubProofs
                       GoChannel.SubInvX GoChannel.SubLive GoChannel.SubCtx.

Definition sstep1 (s : sstate) (l : label) : sstate :=
  match sstep s l with Some s' => s' | None => s end.
Lemma srun_sstep1 s l ls : srun s (l :: ls) = srun (sstep1 s l) ls.
Proof. unfold sstep1. simpl. now destruct (sstep s l). Qed.

Lemma started_step s l s' t : sstep s l = Some s' -> thr s t <> SNone -> thr s' t <> SNone.
Proof.
  intros E Hn.
  destruct l as [t0 p|  | | |t0|t0|t0|t0|t0|t0| |c|c]; simpl in E; sstep_cases E; simpl; auto;
    (destruct (Nat.eq_dec t t0) as [->|ny]; [rewrite upd_same; congruence|now rewrite upd_other]).
Qed.
Lemma started_run ls : forall s t, thr s t <> SNone -> thr (srun s ls) t <> SNone.
Proof.
  induction ls as [|l ls IH]; intros s t H; simpl; [exact H|].
  destruct (sstep s l) eqn:E; [apply IH; eapply started_step; eauto|now apply IH].
Qed.
Lemma done_run ls : forall s t p, thr s t = SDone p -> thr (srun s ls) t = SDone p.
Proof.
  induction ls as [|l ls IH]; intros s t p H; simpl; [exact H|].
  destruct (sstep s l) eqn:E; [apply IH; eapply done_step; eauto|now apply IH].
Qed.

Definition spawns (ps : list pubid) : list label := map (fun p => LSpawn p p) ps.

Lemma spawn_run_other ps : forall s t, (thr s t <> SNone \/ ~ In t ps) ->
  thr (srun s (spawns ps)) t = thr s t.
Proof.
  induction ps as [|p ps IH]; intros s t H; simpl; [reflexivity|].
  destruct (thr s p) eqn:Ep; try (apply IH; destruct H; [now left|right; intros Hi; apply H; now right]).
  rewrite IH.
  - simpl. destruct (Nat.eq_dec t p) as [->|Nt]; [|now rewrite upd_other].
    destruct H as [H|H]; [congruence|exfalso; apply H; now left].
  - simpl. destruct (Nat.eq_dec t p) as [->|Nt]; [left; rewrite upd_same; discriminate|].
    rewrite upd_other by exact Nt. destruct H; [now left|right; intros Hi; apply H; now right].
Qed.
Lemma spawn_run_new ps : forall s t, thr s t = SNone -> In t ps ->
  thr (srun s (spawns ps)) t = SWant t.
Proof.
  induction ps as [|p ps IH]; intros s t H Hin; [destruct Hin|]. simpl.
  destruct (Nat.eq_dec t p) as [->|Nt].
  - rewrite H. rewrite spawn_run_other; simpl; [apply upd_same|left; rewrite upd_same; discriminate].
  - destruct Hin as [Hin|Hin]; [congruence|].
    destruct (thr s p) eqn:Ep; try (now apply IH).
    apply IH; [simpl; now rewrite upd_other|exact Hin].
Qed.
(** spawning changes nothing but the thread map *)
Lemma spawn_run_td ps : forall s, td (srun s (spawns ps)) = td s.
Proof.
  induction ps as [|p ps IH]; intros s; simpl; [reflexivity|].
  destruct (thr s p); try apply IH. now rewrite IH.
Qed.
