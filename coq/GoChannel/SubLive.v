(** Layer A of the GoChannel model (GoChannel/Sub.v): the teardown of a subscription TERMINATES.

    Once the teardown goroutine has been woken (context cancelled / Pub/Sub closing: [td] is
    past TIdle) the consumer is not needed any more: every run that contains no consumer label
    (LRecv, LAck, LNack, LHandoff - a hand-off needs a receiver) and no new LSpawn is finite,
    and when it cannot be extended the teardown is done.  For every buffer size, both variants
    of the send loop ([fixed]), any number of Senders in any state (waiting for the lock, for
    the consumer, for a settlement, in the middle of a Nack loop), every schedule.

    Theorems (s := srun (sinit cap0 fx) ls0, any ls0)
      quiet_step_decreases : an enabled quiet label strictly decreases [measure T s], T any list
                             of thread ids that contains every started thread; the teardown
                             stays woken.
      quiet_run_bounded    : a run of enabled quiet labels from a woken state is at most
                             [measure T s] long.
      quiet_stuck_done     : a woken state (satisfying SInv) in which no quiet label is enabled
                             has td = TDone, closing / closed / the output channel closed, the
                             sending lock free, no panic (so the channel and s.closing were
                             closed exactly once), and EVERY started Sender is SDone - none is
                             left at SWant: a Sender waiting for the lock can take it as soon
                             as it is free.
      teardown_terminates  : the corollary for reachable states, T := the thread ids of the
                             LSpawn labels of ls0.
    Remark on the measure: LSeeNacked re-enters the send loop, but the fresh copy can only be
    Nacked by the consumer, so the rank of SWait depends on the settlement of the current copy
    (Nacked: 5, above SHead; otherwise 2).  That a copy which was never received is Unsettled
    is SubInvX.x_settled. *)
From WM Require Import Base.Prelude Message.Model GoChannel.Sub GoChannel.SubProofs GoChannel.SubInvX.

(** labels of the component itself that need neither the consumer nor a new Sender.
    LTdSpawn / LTdWake are environment labels too, but they are disabled once the teardown
    has been woken, so they may occur in the runs below. *)
Definition quiet (l : label) : bool :=
  match l with
  | LSpawn _ _ | LHandoff _ | LRecv | LAck _ | LNack _ => false
  | _ => true
  end.

Definition woken (p : tpc) : bool :=
  match p with TNone | TIdle => false | _ => true end.

Definition td_rank (p : tpc) : nat :=
  match p with
  | TNone | TIdle => 5 | TSignal => 4 | TWant => 3 | TLocked => 2 | TExit => 1 | TDone => 0
  end.
(** the rank of a Sender waiting for a settlement depends on the settlement: after a Nack it
    goes round the loop once more, with a fresh copy that only the consumer can settle *)
Definition s_rank (s : sstate) (t : tid) : nat :=
  match thr s t with
  | SNone => 0
  | SWant _ => 6
  | SHead _ => 4
  | SSend _ _ => 3
  | SWait _ c => match c_st (copies s c) with Nacked => 5 | _ => 2 end
  | SExit _ => 1
  | SDone _ => 0
  end.

Fixpoint sumf (f : nat -> nat) (l : list nat) : nat :=
  match l with [] => 0 | x :: l' => f x + sumf f l' end.
Definition measure (T : list tid) (s : sstate) : nat := td_rank (td s) + sumf (s_rank s) T.

Lemma sumf_le f g l : (forall y, g y <= f y) -> sumf g l <= sumf f l.
Proof. intros E. induction l as [|y l IH]; simpl; [lia|]. specialize (E y). lia. Qed.
Lemma sumf_lt f g x l : (forall y, g y <= f y) -> g x < f x -> In x l -> sumf g l < sumf f l.
Proof.
  intros E Hx. induction l as [|y l IH]; intros Hin; [destruct Hin|]. simpl.
  destruct Hin as [->|Hin].
  - pose proof (sumf_le f g l E). lia.
  - specialize (IH Hin). specialize (E y). lia.
Qed.
Lemma sumf_ext f g l : (forall y, g y = f y) -> sumf g l = sumf f l.
Proof. intros E. induction l as [|y l IH]; simpl; [reflexivity|]. now rewrite E, IH. Qed.

(** every started thread is in T *)
Definition covers (T : list tid) (s : sstate) : Prop := forall t, thr s t <> SNone -> In t T.

(** a step that changes only the program counter of thread t (and possibly the lock) *)
Lemma rank_thr_only s s' t T :
  covers T s -> thr s t <> SNone ->
  td s' = td s -> copies s' = copies s ->
  (forall y, y <> t -> thr s' y = thr s y) ->
  s_rank s' t < s_rank s t -> measure T s' < measure T s.
Proof.
  intros Hc Ht Etd Ecp Ey Hr. unfold measure. rewrite Etd.
  assert (sumf (s_rank s') T < sumf (s_rank s) T); [|lia].
  apply sumf_lt with t; [|exact Hr|now apply Hc].
  intros y. destruct (Nat.eq_dec y t) as [->|ny]; [lia|].
  unfold s_rank. rewrite Ecp, (Ey y ny). lia.
Qed.

Ltac inv_some' :=
  match goal with H : Some _ = Some _ |- _ => inversion H; subst; clear H end.

(** R: every enabled quiet step decreases the measure; the teardown stays woken *)
Theorem quiet_step_decreases T s l s' : SX s -> covers T s -> woken (td s) = true ->
  quiet l = true -> sstep s l = Some s' ->
  measure T s' < measure T s /\ woken (td s') = true /\ covers T s'.
Proof.
  intros [I X] Hc Hw Hq Hs.
  assert (Hcov : forall s2, (forall y, thr s2 y <> SNone -> thr s y <> SNone) -> covers T s2).
  { intros s2 Hy y Hn. apply Hc. now apply Hy. }
  destruct l as [t p|  | | |t|t|t|t|t|t| |c|c]; simpl in Hq; try discriminate Hq; simpl in Hs.
  - (* LTdSpawn *) destruct (td s); discriminate.
  - (* LTdWake *) destruct (td s); discriminate.
  - (* LTdStep *)
    destruct (td s) eqn:E; try discriminate.
    + inv_some'. unfold measure; simpl. rewrite E. repeat split; auto; simpl; lia.
    + destruct (sending s); try discriminate. inv_some'. unfold measure; simpl. rewrite E.
      repeat split; auto; simpl; lia.
    + inv_some'. unfold measure; simpl. rewrite E. repeat split; auto; simpl; lia.
    + inv_some'. unfold measure; simpl. rewrite E. repeat split; auto; simpl; lia.
  - (* LStep *)
    destruct (thr s t) as [|p|p|p c|p c|p|p] eqn:E; try discriminate.
    + destruct (sending s); try discriminate. inv_some'. split; [|split; [exact Hw|]].
      * apply (rank_thr_only s _ t T); simpl; auto; try congruence.
        -- intros y ny. now rewrite upd_other.
        -- unfold s_rank; simpl. rewrite upd_same, E. lia.
      * apply Hcov. simpl. intros y. updt t y; congruence.
    + assert (Hexit : measure T (set_thr s t (SExit p)) < measure T s
                      /\ woken (td (set_thr s t (SExit p))) = true
                      /\ covers T (set_thr s t (SExit p))).
      { split; [|split; [exact Hw|]].
        * apply (rank_thr_only s _ t T); simpl; auto; try congruence.
          -- intros y ny. now rewrite upd_other.
          -- unfold s_rank; simpl. rewrite upd_same, E. lia.
        * apply Hcov. simpl. intros y. updt t y; congruence. }
      destruct (closedf s); [inv_some'; exact Hexit|].
      destruct (fixed s && closing s); [inv_some'; exact Hexit|]. inv_some'.
      split; [|split; [exact Hw|]].
      * (* a fresh copy: no other thread's current copy is [next s] *)
        unfold measure; simpl.
        assert (sumf (s_rank (set_thr (set_next (set_copy s (next s) (CP p t Unsettled false false))
                                          (S (next s))) t (SSend p (next s)))) T
                < sumf (s_rank s) T); [|lia].
        apply sumf_lt with t; [| |apply Hc; congruence].
        -- intros y. unfold s_rank; simpl. updt t y; [rewrite E; lia|].
           destruct (thr s y) as [|q|q|q c|q c|q|q] eqn:Ey; try lia.
           destruct (v_wait _ I _ _ _ Ey) as (Hlt & _). rewrite upd_other by lia. lia.
        -- unfold s_rank; simpl. rewrite upd_same, E. lia.
      * apply Hcov. simpl. intros y. updt t y; congruence.
    + inv_some'. split; [|split; [exact Hw|]].
      * apply (rank_thr_only s _ t T); simpl; auto; try congruence.
        -- intros y ny. now rewrite upd_other.
        -- unfold s_rank; simpl. rewrite upd_same, E. lia.
      * apply Hcov. simpl. intros y. updt t y; congruence.
  - (* LSendBuf *)
    destruct (thr s t) as [|p|p|p c|p c|p|p] eqn:E; try discriminate.
    destruct (v_send _ I _ _ _ E) as (Hlt & Hus & _ & Hcl & _).
    assert (Hcc : chan_closed s = false).
    { destruct (v_closed _ I) as [H1 H2]. congruence. }
    rewrite Hcc in Hs. destruct (Nat.ltb (length (buf s)) (cap s)); try discriminate. inv_some'.
    split; [|split; [exact Hw|]].
    + unfold measure; simpl.
      assert (sumf (s_rank (set_thr (set_buf (set_copy s c (mark_sent (copies s c))) (buf s ++ [c]))
                                    t (SWait p c))) T < sumf (s_rank s) T); [|lia].
      assert (Hst : forall c0, c_st (upd (copies s) c (mark_sent (copies s c)) c0) = c_st (copies s c0)).
      { intros c0. updt c c0; reflexivity. }
      apply sumf_lt with t; [| |apply Hc; congruence].
      * intros y. unfold s_rank; simpl. updt t y.
        -- rewrite E. simpl. destruct (c_st (copies s c)) eqn:Est; try lia.
           (* a copy that was never sent cannot be Nacked *)
           exfalso. pose proof (unsent_unrecv s c I Hus) as Hr.
           rewrite (x_settled s X c) in Hr by congruence. discriminate.
        -- destruct (thr s y); try lia. rewrite Hst. lia.
      * unfold s_rank; simpl. rewrite upd_same, E, Hst.
        destruct (c_st (copies s c)) eqn:Est; try lia.
        exfalso. pose proof (unsent_unrecv s c I Hus) as Hr.
        rewrite (x_settled s X c) in Hr by congruence. discriminate.
    + apply Hcov. simpl. intros y. updt t y; congruence.
  - (* LSeeClosing *)
    destruct (closing s); try discriminate.
    destruct (thr s t) as [|p|p|p c|p c|p|p] eqn:E; try discriminate; inv_some';
      (split; [|split; [exact Hw|]];
       [apply (rank_thr_only s _ t T); simpl; auto; try congruence;
        [intros y ny; now rewrite upd_other
        |unfold s_rank; simpl; rewrite upd_same, E; try destruct (c_st (copies s c)); lia]
       |apply Hcov; simpl; intros y; updt t y; congruence]).
  - (* LSeeAcked *)
    destruct (thr s t) as [|p|p|p c|p c|p|p] eqn:E; try discriminate.
    destruct (c_st (copies s c)) eqn:Est; try discriminate. inv_some'.
    split; [|split; [exact Hw|]].
    + apply (rank_thr_only s _ t T); simpl; auto; try congruence.
      * intros y ny. now rewrite upd_other.
      * unfold s_rank; simpl. rewrite upd_same, E, Est. lia.
    + apply Hcov. simpl. intros y. updt t y; congruence.
  - (* LSeeNacked *)
    destruct (thr s t) as [|p|p|p c|p c|p|p] eqn:E; try discriminate.
    destruct (c_st (copies s c)) eqn:Est; try discriminate. inv_some'.
    split; [|split; [exact Hw|]].
    + apply (rank_thr_only s _ t T); simpl; auto; try congruence.
      * intros y ny. now rewrite upd_other.
      * unfold s_rank; simpl. rewrite upd_same, E, Est. lia.
    + apply Hcov. simpl. intros y. updt t y; congruence.
Qed.

Theorem quiet_run_bounded T ls : forall s s', SX s -> covers T s -> woken (td s) = true ->
  forallb quiet ls = true -> sreplay s ls = Some s' ->
  length ls + measure T s' <= measure T s /\ SX s' /\ woken (td s') = true /\ covers T s'.
Proof.
  induction ls as [|l ls IH]; intros s s' H Hc Hw Hq Hr; simpl in *.
  - inversion Hr; subst. split; [lia|]. split; [exact H|]. split; assumption.
  - apply andb_true_iff in Hq as [Hl Hq]. destruct (sstep s l) as [s1|] eqn:E; [|discriminate].
    destruct (quiet_step_decreases T s l s1 H Hc Hw Hl E) as (Hm & Hw1 & Hc1).
    destruct (IH s1 s' (sx_step _ _ _ H E) Hc1 Hw1 Hq Hr) as (Hb & A & B & C).
    split; [lia|]. split; [exact A|]. split; assumption.
Qed.

(** the holder of the sending lock, once s.closing is closed, can always step *)
Lemma holder_steps s t : SInv s -> closing s = true -> sholds (thr s t) = true ->
  exists l, quiet l = true /\ sstep s l <> None.
Proof.
  intros I Hc Hh. destruct (thr s t) as [|p|p|p c|p c|p|p] eqn:E; try discriminate Hh.
  - exists (LStep t). split; [reflexivity|]. simpl. rewrite E.
    destruct (closedf s); [discriminate|]. destruct (fixed s && closing s); discriminate.
  - exists (LSeeClosing t). split; [reflexivity|]. simpl. rewrite Hc, E. discriminate.
  - exists (LSeeClosing t). split; [reflexivity|]. simpl. rewrite Hc, E. discriminate.
  - exists (LStep t). split; [reflexivity|]. simpl. rewrite E. discriminate.
Qed.

Definition finished (s : sstate) : Prop :=
  td s = TDone /\ closing s = true /\ closedf s = true /\ chan_closed s = true
  /\ sending s = None /\ panicked s = false
  /\ forall t, thr s t = SNone \/ exists p, thr s t = SDone p.

Theorem quiet_stuck_done s : SInv s -> woken (td s) = true ->
  (forall l, quiet l = true -> sstep s l = None) -> finished s.
Proof.
  intros I Hw Hstuck.
  assert (Hno : forall l, quiet l = true -> sstep s l <> None -> False).
  { intros l Hq Hn. apply Hn. now apply Hstuck. }
  (* the teardown itself *)
  assert (Etd : td s = TDone).
  { destruct (td s) eqn:E; try discriminate Hw; try reflexivity; exfalso.
    - apply (Hno LTdStep); [reflexivity|]. simpl. rewrite E. discriminate.
    - (* TWant: the lock is free, or its holder can step *)
      assert (Hc : closing s = true) by (rewrite (v_closing _ I), E; reflexivity).
      destruct (sending s) as [[t|]|] eqn:Es.
      + assert (Hh : sholds (thr s t) = true) by now apply (v_own_s _ I).
        destruct (holder_steps s t I Hc Hh) as (l & Hq & Hn). exact (Hno l Hq Hn).
      + apply (v_own_t _ I) in Es. rewrite E in Es. discriminate.
      + apply (Hno LTdStep); [reflexivity|]. simpl. rewrite E, Es. discriminate.
    - apply (Hno LTdStep); [reflexivity|]. simpl. rewrite E. discriminate.
    - apply (Hno LTdStep); [reflexivity|]. simpl. rewrite E. discriminate. }
  assert (Hc : closing s = true) by (rewrite (v_closing _ I), Etd; reflexivity).
  destruct (v_closed _ I) as [Hcf Hcc]. rewrite Etd in Hcf, Hcc. simpl in Hcf, Hcc.
  assert (Hnh : forall t, sholds (thr s t) = false).
  { intros t. destruct (sholds (thr s t)) eqn:Eh; [|reflexivity]. exfalso.
    destruct (holder_steps s t I Hc Eh) as (l & Hq & Hn). exact (Hno l Hq Hn). }
  assert (Es : sending s = None).
  { destruct (sending s) as [[t|]|] eqn:Es; [| |reflexivity]; exfalso.
    - apply (v_own_s _ I) in Es. rewrite Hnh in Es. discriminate.
    - apply (v_own_t _ I) in Es. rewrite Etd in Es. discriminate. }
  repeat split; auto; [apply (v_nopanic _ I)|].
  intros t. pose proof (Hnh t) as Ht.
  destruct (thr s t) as [|p|p|p c|p c|p|p] eqn:E; try discriminate Ht; eauto.
  (* a Sender waiting for the free lock takes it *)
  exfalso. apply (Hno (LStep t)); [reflexivity|]. simpl. rewrite E, Es. discriminate.
Qed.

(** the thread ids of the LSpawn labels of a label list *)
Definition spawned (ls : list label) : list tid :=
  flat_map (fun l => match l with LSpawn t _ => [t] | _ => [] end) ls.

Lemma sstep_started s l s' t : sstep s l = Some s' -> thr s' t <> SNone ->
  thr s t <> SNone \/ exists p, l = LSpawn t p.
Proof.
  intros E Hn.
  destruct l as [t0 p|  | | |t0|t0|t0|t0|t0|t0| |c|c]; simpl in E; sstep_cases E; simpl in Hn;
    auto; try (destruct (Nat.eq_dec t t0) as [->|ny];
               [left; congruence|rewrite upd_other in Hn by exact ny; now left]).
  destruct (Nat.eq_dec t t0) as [->|ny]; [right; eauto|rewrite upd_other in Hn by exact ny; now left].
Qed.
Lemma covers_run ls : forall T s, covers T s -> covers (T ++ spawned ls) (srun s ls).
Proof.
  induction ls as [|l ls IH]; intros T s Hc; simpl.
  - rewrite app_nil_r. exact Hc.
  - assert (Hmono : forall T1 T2 s0, covers T1 s0 -> (forall t, In t T1 -> In t T2) -> covers T2 s0).
    { intros T1 T2 s0 H1 H2 t Ht. apply H2, H1, Ht. }
    destruct (sstep s l) as [s1|] eqn:E.
    + assert (Hc1 : covers (T ++ match l with LSpawn t _ => [t] | _ => [] end) s1).
      { intros t Ht. destruct (sstep_started s l s1 t E Ht) as [H0|[p ->]].
        - apply in_or_app. left. now apply Hc.
        - apply in_or_app. right. now left. }
      specialize (IH _ _ Hc1). rewrite <- app_assoc in IH. exact IH.
    + eapply Hmono; [apply (IH T s Hc)|]. intros t Ht. apply in_app_or in Ht.
      apply in_or_app. destruct Ht as [Ht|Ht]; [now left|right]. apply in_or_app. now right.
Qed.
Lemma covers_reach cap0 fx ls : covers (spawned ls) (srun (sinit cap0 fx) ls).
Proof. apply (covers_run ls [] (sinit cap0 fx)). intros t Ht. simpl in Ht. congruence. Qed.

(** C07, per subscription: cancel / Close TERMINATE.  From any reachable state in which the
    teardown has been woken, without any help from the consumer and whatever the Senders were
    doing: every run of enabled quiet labels is at most [measure T s] long, and a run that
    cannot be extended ends with the teardown done, the output channel closed (once: no
    panic), the lock free and every started Sender returned. *)
Theorem teardown_terminates cap0 fx ls0 ls s' :
  let s := srun (sinit cap0 fx) ls0 in
  let T := spawned ls0 in
  woken (td s) = true -> forallb quiet ls = true -> sreplay s ls = Some s' ->
  length ls + measure T s' <= measure T s
  /\ ((forall l, quiet l = true -> sstep s' l = None) -> finished s').
Proof.
  intros s T Hw Hq Hr.
  destruct (quiet_run_bounded T ls s s' (sx_reach cap0 fx ls0) (covers_reach cap0 fx ls0) Hw Hq Hr)
    as (Hb & [I' _] & Hw' & _).
  split; [exact Hb|]. intros Hstuck. now apply quiet_stuck_done.
Qed.

(** sanity: the bound is attained - the D13 schedule (teardown at TWant, Sender 1 waiting for a
    settlement, Sender 0 done) continued to the end: measure 5, five steps *)
Example teardown_run_example :
  let s := srun (sinit 0 false) d13_schedule in
  let ls := [LSeeClosing 1; LStep 1; LTdStep; LTdStep; LTdStep] in
  woken (td s) = true /\ forallb quiet ls = true /\ measure (spawned d13_schedule) s = 5
  /\ exists s', sreplay s ls = Some s' /\ measure (spawned d13_schedule) s' = 0
       /\ td s' = TDone /\ chan_closed s' = true /\ sending s' = None
       /\ thr s' 0 = SDone 10 /\ thr s' 1 = SDone 11 /\ panicked s' = false.
Proof.
  split; [reflexivity|]. split; [reflexivity|]. split; [vm_compute; reflexivity|].
  eexists. split; [vm_compute; reflexivity|]. vm_compute. repeat split; reflexivity.
Qed.

Print Assumptions quiet_step_decreases.
Print Assumptions quiet_run_bounded.
Print Assumptions quiet_stuck_done.
Print Assumptions teardown_terminates.
