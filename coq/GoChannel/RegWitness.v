(** Concrete schedules of the registry model: the two genuine defects D7 and D9 and a
    persistent-replay sanity run.  Everything here is closed by computation. *)
From WM Require Import Base.Prelude GoChannel.Reg.

(** full Subscribe of subscription x on topic k (non-persistent: 9 steps; persistent: 10) *)
Definition subscribe_all (x : subid) (k : topic) (n : nat) : list glabel :=
  GSubscribe x k :: repeat (GS_ x) n.

(** D7: persistent mode, a Publish that passed the closed check runs after Close has set the
    log to nil: "assignment to entry in nil map" *)
Definition d7_schedule : list glabel :=
  [GPublish 0 0 [1]; GT 0;                       (* isClosed() = false *)
   GClose 1; GT 1; GT 1; GT 1; GT 1; GT 1;       (* Close runs to completion *)
   GT 0; GT 0; GT 0].                            (* RLock, topic lock, persist -> panic *)

Lemma d7_panics : panicked (grun (ginit true false false) d7_schedule) = true.
Proof. vm_compute. reflexivity. Qed.
Lemma d7_fixed : let s := grun (ginit true false true) (d7_schedule ++ [GT 0; GT 0; GT 0; GT 0]) in
  panicked s = false /\ thr s 0 = PDone true.
Proof. vm_compute. split; reflexivity. Qed.

(** D9: blocking mode.  Thread 0 publishes message 1 on topic 0 and waits for subscription 0's
    Ack while holding the read lock; subscription 1 is being created (writer announced);
    the consumer of subscription 0 (thread 1) publishes message 2 on topic 1 BEFORE acking:
    its RLock queues behind the announced writer, the writer waits for thread 0's read lock,
    thread 0 waits for the Ack.  Nobody can move. *)
Definition d9_schedule : list glabel :=
  subscribe_all 0 0 9 ++
  [GPublish 0 0 [1]; GT 0; GT 0; GT 0; GT 0;     (* ... snapshot taken, now in PWait *)
   GSubscribe 1 1; GS_ 1; GS_ 1;                 (* wg.Add; Lock() announced *)
   GPublish 1 1 [2]; GT 1].                      (* consumer's nested Publish: closed check ok, then RLock *)

Definition stuck_on (s : gstate) (ts : list tid) (xs : list subid) : bool :=
  forallb (fun t => match gstep s (GT t) with None => true | Some _ => false end) ts
  && forallb (fun x => match gstep s (GS_ x) with None => true | Some _ => false end) xs
  && forallb (fun x => match gstep s (GD x) with None => true | Some _ => false end) xs.

Lemma d9_deadlock :
  let s := grun (ginit false true true) d9_schedule in
  stuck_on s [0; 1] [0; 1] = true
  /\ thr s 0 = PWait 0 1 [] /\ thr s 1 = PRLock 1 [2] /\ sb s 1 = SWAnn 1
  /\ mem 1 (acked s) = false /\ gclosing s = false /\ panicked s = false.
Proof. vm_compute. repeat split; reflexivity. Qed.

(** persistent replay: message 1 published before, message 2 during (after the log read is
    impossible: the locks serialise them), message 3 after the Subscribe: one Sender each *)
Lemma replay_once :
  let s := grun (ginit true false true)
             ([GPublish 0 0 [1]] ++ repeat (GT 0) 8 ++
              [GSubscribe 5 0; GS_ 5; GS_ 5; GS_ 5; GS_ 5; GS_ 5] ++     (* holds both locks, created *)
              [GPublish 1 0 [2]; GT 1; GT 1] ++                          (* blocked at RLock *)
              repeat (GS_ 5) 5 ++ repeat (GT 1) 8 ++
              [GPublish 2 0 [3]] ++ repeat (GT 2) 8) in
  map (fun p => nsenders s p 5) [1; 2; 3] = [1; 1; 1] /\ sb s 5 = SDone 0
  /\ thr s 1 = PDone true /\ thr s 2 = PDone true.
Proof. vm_compute. repeat split; reflexivity. Qed.
