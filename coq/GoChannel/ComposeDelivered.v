(** [Monitor.mon_delivered] on the API history [ComposeAccept.ctrace] of composed runs.

    Proved:
      count_proj             : the receipts of subscription x in [ctrace] are exactly those of its
                               instance's history: count_recv (ctrace c cls) x p
                               = count_recv (MonitorSound.trace x (ci c x) (sub_labels x c cls)) x p.
      delivered_at_quiescence: in a QUIESCENT composed state (every Sender the registry spawned has
                               returned) every Sender (p, x) of a subscription that is not closing
                               has delivered: 1 <= count_recv (ctrace ...) x p.  Any consumer.
      mon_delivered_nil      : the acceptor reports nothing when every pair it tests was received.
      delivered_acceptor_sound_composed_partial :
                               mon_delivered (ctrace c0 cls ++ [AQuiescent]) = []  for quiescent
                               composed runs, GIVEN the bookkeeping hypothesis [Tested]: every pair
                               (x, p) the acceptor tests (good subscription x whose ASubRet precedes
                               the APubCall of a good publication p of its topic) has a Sender in the
                               registry and x is not closing.
    MISSING for the full statement ComposeAccept.delivered_acceptor_sound_composed_statement:
    the hypothesis [Tested] itself, i.e. the event-order bookkeeping of [ctrace]:
      (a) ASubRet x true at index si, APubCall ... p ... at index ci > si, APubRet ok and no
          ACloseCall before  ==>  x is registered when p's snapshot is taken
          (RegInv.registered_window + RegSend.snapshot_complete give (p, x) in senders from there);
      (b) x in good_subs (no ACancel x in the history, Subscribe before any Close)  ==>
          the instance of x is not closing at the quiescent state - FALSE as the acceptor
          stands if Close is called after the Publish and before quiescence without an
          AChanClosed x event in the history; the statement needs either that event in [cemit]
          (consumer observes the closed channel) or "no ACloseCall in the history". *)
From WM Require Import Base.Prelude GoChannel.Reg GoChannel.RegLocks GoChannel.RegInv
                       GoChannel.RegSend GoChannel.Compose GoChannel.ComposeTrace
                       GoChannel.ComposeTerm GoChannel.ComposeAccept.
From WM Require GoChannel.Sub GoChannel.SubInvX GoChannel.SubCtx GoChannel.SubOnce GoChannel.SubDelivered
                GoChannel.Monitor GoChannel.MonitorSound.

Lemma sync_trace_no_recv x p ls : Forall (fun l => syncl l = true) ls -> forall s,
  Monitor.count_recv (MonitorSound.trace x s ls) x p = 0.
Proof.
  induction ls as [|l ls IH]; intros Hf s; simpl; [reflexivity|]. inversion Hf; subst.
  destruct (Sub.sstep s l) as [s'|]; [|now apply IH].
  rewrite SubOnce.count_recv_app, IH by assumption. destruct l; try discriminate H1; reflexivity.
Qed.

Lemma count_proj x p cls : forall c,
  Monitor.count_recv (ctrace c cls) x p
  = Monitor.count_recv (MonitorSound.trace x (ci c x) (sub_labels x c cls)) x p.
Proof.
  induction cls as [|cl cls IH]; intros c; simpl; [reflexivity|].
  destruct (cstep c cl) as [c'|] eqn:E; [|apply IH].
  rewrite SubOnce.count_recv_app, SubDelivered.trace_app, SubOnce.count_recv_app, IH.
  destruct cl as [l|y l]; simpl in E.
  - destruct (guard c l); [|discriminate]. destruct (gstep (cg c) l) as [g'|]; [|discriminate].
    inversion E; subst c'; clear E. cbn [ci cg].
    rewrite (sync_trace_no_recv x p _ (own_sync_syncl (cg c) l x)), apply_sync_proj.
    f_equal. unfold cemit. cbn [cg].
    destruct l; try reflexivity;
      repeat match goal with |- context [match ?e with _ => _ end] => destruct e end; reflexivity.
  - destruct (free_sub l) eqn:Ef; [|discriminate].
    destruct (Sub.sstep (ci c y) l) as [s'|] eqn:Es; [|discriminate]. inversion E; subst c'; clear E.
    cbn [ci cg]. destruct (Nat.eqb y x) eqn:Eyx.
    + apply Nat.eqb_eq in Eyx. subst y. rewrite upd_same. simpl MonitorSound.trace. rewrite Es, app_nil_r.
      f_equal.
      destruct l; try discriminate Ef; simpl; try reflexivity;
        repeat match goal with |- context [match ?e with _ => _ end] => destruct e end;
        unfold Monitor.count_recv; simpl;
        repeat match goal with |- context [if ?e then _ else _] => destruct e end; reflexivity.
    + apply Nat.eqb_neq in Eyx. rewrite upd_other by congruence. simpl. f_equal.
      assert (Hx : Nat.eqb x y = false) by (apply Nat.eqb_neq; congruence).
      unfold Monitor.count_recv.
      destruct l; simpl; try reflexivity;
        repeat match goal with |- context [match ?e with _ => _ end] => destruct e end;
        simpl; rewrite ?Hx; reflexivity.
Qed.

Theorem delivered_at_quiescence pers blk fx caps fa cls p x :
  let c0 := cinit pers blk fx caps fa in let c := crun c0 cls in
  quiescent c -> In (p, x) (senders (cg c)) -> Sub.closing (ci c x) = false ->
  1 <= Monitor.count_recv (ctrace c0 cls) x p.
Proof.
  intros c0 c Hq Hin Hc. destruct (Hq p x Hin) as [q Et].
  rewrite count_proj. cbn [ci c0 cinit].
  pose proof (spawn_pubs_nodup pers blk fx caps fa cls x) as Hnd.
  pose proof (proj_sub x cls c0) as Hr. fold c in Hr. cbn [ci c0 cinit] in Hr.
  rewrite Hr in Hc, Et.
  assert (q = p).
  { apply (diag_run (sub_labels x c0 cls) (Sub.sinit (caps x) fa));
      [intros t0 q0; simpl; discriminate|apply sub_labels_diag|now rewrite Et]. }
  subst q. exact (SubDelivered.returned_received x (caps x) fa _ p p Hnd Hc Et).
Qed.

(** the acceptor, structurally *)
Lemma flat_map_nil {A B} (f : A -> list B) l : (forall a, In a l -> f a = []) -> flat_map f l = [].
Proof.
  induction l as [|a l IH]; intros H; simpl; [reflexivity|].
  rewrite (H a (or_introl eq_refl)), IH; [reflexivity|]. intros b Hb. apply H. now right.
Qed.
Lemma mon_delivered_nil h :
  (forall x k si p k' ci, In (x, k) (Monitor.good_subs h) ->
     Monitor.index_of_subret (Monitor.upto_quiescent h) x = Some si ->
     In (p, k', ci) (Monitor.good_pubs h) -> Nat.eqb k' k && Nat.ltb si ci = true ->
     Monitor.count_recv (Monitor.upto_quiescent h) x p <> 0) ->
  Monitor.mon_delivered h = [].
Proof.
  intros H. unfold Monitor.mon_delivered. apply flat_map_nil. intros [x k] Hx. cbn [fst snd].
  destruct (Monitor.index_of_subret (Monitor.upto_quiescent h) x) as [si|] eqn:Es; [|reflexivity].
  apply flat_map_nil. intros [[p k'] ci] Hp.
  destruct (Nat.eqb k' k && Nat.ltb si ci) eqn:Ec; [|reflexivity]. simpl.
  destruct (Nat.eqb (Monitor.count_recv (Monitor.upto_quiescent h) x p) 0) eqn:E0; [|reflexivity].
  apply Nat.eqb_eq in E0. exfalso. exact (H x k si p k' ci Hx Es Hp Ec E0).
Qed.

Lemma cemit_no_quiescent c c' cl : ~ In Monitor.AQuiescent (cemit c c' cl).
Proof.
  unfold cemit. destruct cl as [l|x l]; destruct l; simpl;
    repeat match goal with |- context [match ?e with _ => _ end] => destruct e; simpl end;
    intuition discriminate.
Qed.
Lemma ctrace_no_quiescent cls : forall c, ~ In Monitor.AQuiescent (ctrace c cls).
Proof.
  induction cls as [|cl cls IH]; intros c; simpl; [tauto|].
  destruct (cstep c cl) as [c'|]; [|apply IH]. intros Hin. apply in_app_or in Hin as [Hin|Hin].
  - eapply cemit_no_quiescent; eauto.
  - eapply IH; eauto.
Qed.
Lemma upto_quiescent_snoc h : ~ In Monitor.AQuiescent h ->
  Monitor.upto_quiescent (h ++ [Monitor.AQuiescent]) = h.
Proof.
  induction h as [|e h IH]; intros Hn; simpl; [reflexivity|].
  destruct e; try (rewrite IH; [reflexivity|intros Hi; apply Hn; now right]).
  exfalso. apply Hn. now left.
Qed.

(** the acceptor accepts the history of a quiescent composed run, given the bookkeeping
    hypothesis [Tested] (see the head of the file for why it is a hypothesis) *)
Definition Tested (c : cstate) (h : list Monitor.aev) : Prop :=
  forall x k si p k' ic, In (x, k) (Monitor.good_subs h) ->
    Monitor.index_of_subret (Monitor.upto_quiescent h) x = Some si ->
    In (p, k', ic) (Monitor.good_pubs h) -> Nat.eqb k' k && Nat.ltb si ic = true ->
    In (p, x) (senders (cg c)) /\ Sub.closing (ci c x) = false.

Theorem delivered_acceptor_sound_composed_partial pers blk fx caps fa cls :
  let c0 := cinit pers blk fx caps fa in let c := crun c0 cls in
  let h := ctrace c0 cls ++ [Monitor.AQuiescent] in
  quiescent c -> Tested c h -> Monitor.mon_delivered h = [].
Proof.
  intros c0 c h Hq Ht. apply mon_delivered_nil. intros x k si p k' ic Hx Hs Hp Hc.
  destruct (Ht x k si p k' ic Hx Hs Hp Hc) as [Hin Hcl].
  unfold h. rewrite upto_quiescent_snoc by apply ctrace_no_quiescent.
  pose proof (delivered_at_quiescence pers blk fx caps fa cls p x Hq Hin Hcl) as Hd. fold c0 in Hd. lia.
Qed.

Print Assumptions count_proj.
Print Assumptions delivered_at_quiescence.
Print Assumptions delivered_acceptor_sound_composed_partial.
