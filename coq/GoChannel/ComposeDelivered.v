(** [Monitor.mon_delivered] on the API history [ComposeAccept.ctrace] of composed runs.

    Proved:
      count_proj             : the receipts of subscription x in [ctrace] are exactly those of its
                               instance's history: count_recv (ctrace c cls) x p
                               = count_recv (MonitorSound.trace x (ci c x) (sub_labels x c cls)) x p.
      delivered_at_quiescence: in a QUIESCENT composed state (every Sender the registry spawned has
                               returned) every Sender (p, x) of a subscription that is not closing
                               has delivered: 1 <= count_recv (ctrace ...) x p.  Any consumer.
      mon_delivered_nil      : the acceptor reports nothing when every pair it tests was received.
      delivered_acceptor_sound_composed_partial :
                               mon_delivered (ctrace c0 cls ++ [AQuiescent]) = []  for quiescent
                               composed runs, GIVEN the bookkeeping hypothesis [Tested]: every pair
                               (x, p) the acceptor tests (good subscription x whose ASubRet precedes
                               the APubCall of a good publication p of its topic) has a Sender in the
                               registry and x is not closing.
    MISSING for the full statement ComposeAccept.delivered_acceptor_sound_composed_statement:
    the hypothesis [Tested] itself, i.e. the event-order bookkeeping of [ctrace]:
      (a) ASubRet x true at index si, APubCall ... p ... at index ci > si, APubRet ok and no
          ACloseCall before  ==>  x is registered when p's snapshot is taken
          (RegInv.registered_window + RegSend.snapshot_complete give (p, x) in senders from there);
      (b) x in good_subs (no ACancel x in the history, Subscribe before any Close)  ==>
          the instance of x is not closing at the quiescent state - FALSE as the acceptor
          stands if Close is called after the Publish and before quiescence without an
          AChanClosed x event in the history; the statement needs either that event in [cemit]
          (consumer observes the closed channel) or "no ACloseCall in the history". *)
From WM Require Import Base.Prelude GoChannel.Reg GoChannel.RegLocks GoChannel.RegInv
                       GoChannel.RegSend GoChannel.Compose GoChannel.ComposeTrace
                       GoChannel.ComposeTerm GoChannel.ComposeAccept.
From WM Require GoChannel.Sub GoChannel.SubInvX GoChannel.SubCtx GoChannel.SubOnce GoChannel.SubDelivered
                GoChannel.Monitor GoChannel.MonitorSound.

Lemma sync_trace_no_recv x p ls : Forall (fun l => syncl l = true) ls -> forall s,
  Monitor.count_recv (MonitorSound.trace x s ls) x p = 0.
Proof.
  induction ls as [|l ls IH]; intros Hf s; simpl; [reflexivity|]. inversion Hf; subst.
  destruct (Sub.sstep s l) as [s'|]; [|now apply IH].
  rewrite SubOnce.count_recv_app, IH by assumption. destruct l; try discriminate H1; reflexivity.
Qed.

Lemma count_proj x p cls : forall c,
  Monitor.count_recv (ctrace c cls) x p
  = Monitor.count_recv (MonitorSound.trace x (ci c x) (sub_labels x c cls)) x p.
Proof.
  induction cls as [|cl cls IH]; intros c; simpl; [reflexivity|].
  destruct (cstep c cl) as [c'|] eqn:E; [|apply IH].
  rewrite SubOnce.count_recv_app, SubDelivered.trace_app, SubOnce.count_recv_app, IH.
  destruct cl as [l|y l]; simpl in E.
  - destruct (guard c l); [|discriminate]. destruct (gstep (cg c) l) as [g'|]; [|discriminate].
    inversion E; subst c'; clear E. cbn [ci cg].
    rewrite (sync_trace_no_recv x p _ (own_sync_syncl (cg c) l x)), apply_sync_proj.
    f_equal. unfold cemit. cbn [cg].
    destruct l; try reflexivity;
      repeat match goal with |- context [match ?e with _ => _ end] => destruct e end; reflexivity.
  - destruct (free_sub l) eqn:Ef; [|discriminate].
    destruct (Sub.sstep (ci c y) l) as [s'|] eqn:Es; [|discriminate]. inversion E; subst c'; clear E.
    cbn [ci cg]. destruct (Nat.eqb y x) eqn:Eyx.
    + apply Nat.eqb_eq in Eyx. subst y. rewrite upd_same. simpl MonitorSound.trace. rewrite Es, app_nil_r.
      f_equal.
      destruct l; try discriminate Ef; simpl; try reflexivity;
        repeat match goal with |- context [match ?e with _ => _ end] => destruct e end;
        unfold Monitor.count_recv; simpl;
        repeat match goal with |- context [if ?e then _ else _] => destruct e end; reflexivity.
    + apply Nat.eqb_neq in Eyx. rewrite upd_other by congruence. simpl. f_equal.
      assert (Hx : Nat.eqb x y = false) by (apply Nat.eqb_neq; congruence).
      unfold Monitor.count_recv.
      destruct l; simpl; try reflexivity;
        repeat match goal with |- context [match ?e with _ => _ end] => destruct e end;
        simpl; rewrite ?Hx; reflexivity.
Qed.
