(** Termination half of [blocking_returns_composed] / "every Close call returns" in the composed
    system (GoChannel/Compose.v): the measure lemmas, per component.

      composed_reg_step_decreases : a registry-internal step of the composition strictly
          decreases RegLive.measure of the registry component - every mode.
      composed_sub_step_decreases : a step of instance x other than the consumer's (LTdStep, LStep,
          LSendBuf, LHandoff, LSeeClosing, LSeeAcked, LSeeNacked) strictly decreases
          SubLive.measure (sent (cg c)) of that instance and changes nothing else; the list
          [sent (cg c)] covers the instance's started threads (thread ids are publication ids).
      composed_consumer_step      : LRecv / LAck leave every measure unchanged; LNack raises the
          instance's by at most 3 * length (sent (cg c)).

    THE FULL STATEMENT (not proved): [blocking_returns_composed_statement] below.  What is
    missing is ONE combined measure:  W * RegLive.measure (cg c) + sum over x in allsubs of the
    instance measures, with W > 6 * (length allsubs + length used): a snapshot / replay step of the
    registry decreases RegLive.measure by one but raises instance measures by 6 per spawned
    Sender (at most length allsubs resp. length used of them).  This needs (a) the bound
    |subs k| <= |allsubs| and |log k| <= |used| (NoDup + inclusion, available from Inv1/Inv2),
    (b) a run without GPublish / GSubscribe (so that W is constant), (c) GAllAcked p counted only
    when p is not yet acked (the model lets the environment-turned-internal label fire again),
    (d) the Nack bound to pay for [composed_consumer_step]. *)
From WM Require Import Base.Prelude GoChannel.Reg GoChannel.RegLocks GoChannel.RegInv
                       GoChannel.RegSend GoChannel.RegLive GoChannel.Compose GoChannel.ComposeLive.
From WM Require GoChannel.Sub GoChannel.SubProofs GoChannel.SubInvX GoChannel.SubLive GoChannel.SubMeasure.

Definition env_call (cl : clabel) : bool :=
  match cl with
  | CReg (GPublish _ _ _) | CReg (GClose _) | CReg (GSubscribe _ _) | CReg (GCancel _) => true
  | _ => false
  end.
Definition consumer_step (cl : clabel) : bool :=
  match cl with CSub _ Sub.LRecv | CSub _ (Sub.LAck _) | CSub _ (Sub.LNack _) => true | _ => false end.
Definition nack_step (cl : clabel) : bool :=
  match cl with CSub _ (Sub.LNack _) => true | _ => false end.
(** number of EXECUTED labels of a run that satisfy f *)
Fixpoint count_exec (f : clabel -> bool) (c : cstate) (cls : list clabel) : nat :=
  match cls with
  | [] => 0
  | cl :: cls' => match cstep c cl with
                  | Some c' => (if f cl then 1 else 0) + count_exec f c' cls'
                  | None => count_exec f c cls'
                  end
  end.
Definition publish_pending (p : tpc) : bool :=
  match p with
  | PCheck _ _ | PRLock _ _ | PTLock _ _ | PPersist _ _ | PSend _ _ | PWait _ _ _ | PTUnlock _ | PRUnlock => true
  | _ => false
  end.

(** the full statement, kept visible (NOT proved; the lemmas below are its measure half) *)
Definition blocking_returns_composed_statement : Prop :=
  forall pers fx caps fa cls (nacks : nat),
  let c := crun (cinit pers true fx caps fa) cls in
  exists bound, forall cls',
    (* no Publish / Subscribe / cancel / Close call after c, no writer pending or holding on the way *)
    forallb (fun cl => negb (env_call cl)) cls' = true ->
    (forall pre post, cls' = pre ++ post ->
       writer (cg (crun c pre)) = None /\ wpending (cg (crun c pre)) = []) ->
    (* at most [nacks] Nacks *)
    count_exec nack_step c cls' <= nacks ->
    (* boundedly many steps that are not the consumer's ... *)
    count_exec (fun cl => negb (consumer_step cl)) c cls' <= bound
    (* ... and when nothing of the composition is enabled every Publish has returned *)
    /\ (~ CProg (crun c cls') -> forall t, publish_pending (thr (cg (crun c cls')) t) = false).

Section Steps.
Variables (pers blk fx : bool) (caps : subid -> nat) (fa : bool) (cls : list clabel).
Let c := crun (cinit pers blk fx caps fa) cls.

Theorem composed_reg_step_decreases l c' : internal l = true -> cstep c (CReg l) = Some c' ->
  measure (cg c') < measure (cg c).
Proof.
  intros Hi E. simpl in E. destruct (guard c l); [|discriminate].
  destruct (gstep (cg c) l) as [g'|] eqn:Es; [|discriminate]. inversion E; subst c'; clear E. simpl.
  apply (measure_step (cg c) l g'); auto; unfold c; rewrite proj_reg; [apply reg_inv|apply reg_invl].
Qed.

Lemma inst_covers x : SubLive.covers (sent (cg c)) (ci c x).
Proof.
  intros t Ht. pose proof (comp_link pers blk fx caps fa cls) as L. fold c in L.
  destruct (comp_reg_inv pers blk fx caps fa cls) as (_ & _ & I2). fold c in I2.
  destruct (scnt t x (senders (cg c))) eqn:E; [exfalso; apply Ht; now apply (k_none c L)|].
  apply (s_snd _ I2 t x). lia.
Qed.

Theorem composed_sub_step_decreases x l c' : SubMeasure.moving l = true ->
  cstep c (CSub x l) = Some c' ->
  SubLive.measure (sent (cg c)) (ci c' x) < SubLive.measure (sent (cg c)) (ci c x)
  /\ cg c' = cg c /\ (forall y, y <> x -> ci c' y = ci c y).
Proof.
  intros Hm E. simpl in E. destruct (free_sub l); [|discriminate].
  destruct (Sub.sstep (ci c x) l) as [s'|] eqn:Es; [|discriminate]. inversion E; subst c'; clear E. simpl.
  split; [|split; [reflexivity|intros y N; now rewrite upd_other]]. rewrite upd_same.
  apply (SubMeasure.moving_step_decreases (sent (cg c)) (ci c x) l s'); auto;
    [apply (comp_sub_sx pers blk fx caps fa cls x)|apply inst_covers].
Qed.

Theorem composed_consumer_step x l c' : cstep c (CSub x l) = Some c' ->
  (l = Sub.LRecv \/ (exists k, l = Sub.LAck k) ->
   SubLive.measure (sent (cg c)) (ci c' x) = SubLive.measure (sent (cg c)) (ci c x))
  /\ (forall k, l = Sub.LNack k ->
      SubLive.measure (sent (cg c)) (ci c' x) <= SubLive.measure (sent (cg c)) (ci c x) + 3 * length (sent (cg c)))
  /\ measure (cg c') = measure (cg c).
Proof.
  intros E. simpl in E. destruct (free_sub l); [|discriminate].
  destruct (Sub.sstep (ci c x) l) as [s'|] eqn:Es; [|discriminate]. inversion E; subst c'; clear E. simpl.
  rewrite upd_same. split; [|split; [|reflexivity]].
  - intros Hl. now apply (SubMeasure.recv_ack_measure _ (ci c x) l s').
  - intros k ->. now apply (SubMeasure.nack_measure _ (ci c x) k s').
Qed.
End Steps.

(** the second conjunct of the full statement IS proved: with no writer pending or holding, a
    state in which nothing of the composition (consumers included) is enabled has no Publish
    under way *)
Theorem stuck_means_published pers blk fx caps fa cls :
  let c := crun (cinit pers blk fx caps fa) cls in
  writer (cg c) = None -> wpending (cg c) = [] -> ~ CProg c ->
  forall t, publish_pending (thr (cg c) t) = false.
Proof.
  intros c NW NP Hstuck t. destruct (publish_pending (thr (cg c) t)) eqn:E; [|reflexivity].
  exfalso. apply Hstuck. apply (blocking_progress_composed pers blk fx caps fa cls NW NP).
  left. exists t. fold c. destruct (thr (cg c) t); try discriminate E; reflexivity.
Qed.

Print Assumptions stuck_means_published.
Print Assumptions composed_reg_step_decreases.
Print Assumptions composed_sub_step_decreases.
Print Assumptions composed_consumer_step.
