(** Layer A of the GoChannel model (GoChannel/Sub.v): with a consumer that never Nacks, every
    publication is received AT MOST once, and exactly once when its Sender has returned and
    the subscription was never cancelled.  This is the Layer A half of C11 ("replays the whole
    topic to every subscription exactly once"); GoChannel/ReplayCompose.v glues it to Layer B.

    Hypotheses on the label list ls: [no_nack ls] (no LNack label - the consumer always Acks)
    and [NoDup (spawn_pubs ls)] (one Sender per publication: Layer B's sender_unique).
    Theorems (a := srun (sinit cap0 fx) ls, h := MonitorSound.trace x (sinit cap0 fx) ls)
      recv_count_is_state     : count_recv h x p = the number of received copies of p in a
      acking_at_most_once     : count_recv h x p <= 1
      acking_exactly_once     : closing a = false -> thr a t = SDone p -> count_recv h x p = 1,
                                and the one copy of t is received and Acked
      acking_one_copy_per_sender : every Sender made at most one copy. *)
From WM Require Import Base.Prelude Message.Model GoChannel.Sub GoChannel.SubProofs
                       GoChannel.SubInvX GoChannel.SubLive GoChannel.Monitor GoChannel.MonitorSound.

Definition no_nack (ls : list label) : bool :=
  forallb (fun l => match l with LNack _ => false | _ => true end) ls.

(** * no Nack label, no Nacked copy *)
Definition NoNacked (s : sstate) : Prop := forall c, c_st (copies s c) <> Nacked.
Lemma nonacked_step s l s' : NoNacked s -> (forall c, l <> LNack c) -> sstep s l = Some s' ->
  NoNacked s'.
Proof.
  intros N Hl E c'. specialize (N c') as Nc.
  destruct l as [t p|  | | |t|t|t|t|t|t| |c|c]; simpl in E; sstep_cases E; simpl; auto;
    try (destruct (Nat.eq_dec c' c) as [->|Ne];
         [rewrite upd_same; simpl; try apply N; congruence|rewrite upd_other by exact Ne; exact Nc]).
  - destruct (Nat.eq_dec c' (next s)) as [->|Ne];
      [rewrite upd_same; simpl; congruence|rewrite upd_other by exact Ne; exact Nc].
  - exfalso. now apply (Hl c).
Qed.

(** * a Sender that is through, on a subscription that is not closing, has an Acked copy *)
Definition through (p : spc) : bool := match p with SExit _ | SDone _ => true | _ => false end.
Definition DoneAcked (s : sstate) : Prop :=
  closing s = false -> forall t, through (thr s t) = true ->
  exists c, c < next s /\ c_thr (copies s c) = t /\ c_st (copies s c) = Acked.

Lemma closing_mono s l s' : sstep s l = Some s' -> closing s' = false -> closing s = false.
Proof.
  intros E. destruct l; simpl in E; sstep_cases E; simpl; auto; congruence.
Qed.

(** copies keep their owner; an Acked copy stays Acked *)
Lemma acked_step s l s' c : c < next s -> sstep s l = Some s' ->
  c < next s' /\ c_thr (copies s' c) = c_thr (copies s c)
  /\ (c_st (copies s c) = Acked -> c_st (copies s' c) = Acked).
Proof.
  intros Hlt E.
  destruct l as [t0 q|  | | |t0|t0|t0|t0|t0|t0| |c0|c0]; simpl in E; sstep_cases E; simpl; auto;
    try (split; [assumption|]; destruct (Nat.eq_dec c c0) as [->|Nc];
         [rewrite upd_same; simpl; split; [reflexivity|congruence]
         |rewrite upd_other by exact Nc; auto]).
  split; [lia|]. rewrite upd_other by lia. auto.
Qed.

Lemma doneacked_step s l s' : SInv s -> DoneAcked s -> sstep s l = Some s' -> DoneAcked s'.
Proof.
  intros I D E Hc' t' Ht'. pose proof (closing_mono s l s' E Hc') as Hc. specialize (D Hc).
  assert (Hkeep : forall t, through (thr s t) = true ->
            exists c, c < next s' /\ c_thr (copies s' c) = t /\ c_st (copies s' c) = Acked).
  { intros t Ht. destruct (D t Ht) as (c & H1 & H2 & H3).
    destruct (acked_step s l s' c H1 E) as (A & B & C). exists c. repeat split; auto. congruence. }
  assert (Hncl : closedf s = false).
  { destruct (v_closed _ I) as [Hcf _]. rewrite Hcf. rewrite (v_closing _ I) in Hc.
    destruct (td s); simpl in *; congruence. }
  destruct l as [t p|  | | |t|t|t|t|t|t| |c|c]; simpl in E;
    try (sstep_cases E; simpl in *; apply Hkeep; exact Ht').
  - (* LSpawn *) sstep_cases E. simpl in *. apply Hkeep.
    destruct (Nat.eq_dec t' t) as [->|Nt]; [rewrite upd_same in Ht'; discriminate|now rewrite upd_other in Ht'].
  - (* LStep *)
    destruct (thr s t) as [|p|p|p c|p c|p|p] eqn:Et; try discriminate.
    + sstep_cases E. simpl in *. apply Hkeep.
      destruct (Nat.eq_dec t' t) as [->|Nt]; [rewrite upd_same in Ht'; discriminate|now rewrite upd_other in Ht'].
    + rewrite Hncl, Hc, andb_false_r in E. inversion E; subst s'; clear E. simpl in *. apply Hkeep.
      destruct (Nat.eq_dec t' t) as [->|Nt]; [rewrite upd_same in Ht'; discriminate|now rewrite upd_other in Ht'].
    + inversion E; subst s'; clear E. simpl in *. apply Hkeep.
      destruct (Nat.eq_dec t' t) as [->|Nt]; [now rewrite Et|now rewrite upd_other in Ht'].
  - (* LSendBuf *)
    destruct (thr s t) as [|p|p|p c|p c|p|p] eqn:Et; try discriminate.
    destruct (v_send _ I _ _ _ Et) as (_ & _ & _ & Hcl & _).
    assert (Hcc : chan_closed s = false) by (destruct (v_closed _ I) as [H1 H2]; congruence).
    rewrite Hcc in E. destruct (Nat.ltb (length (buf s)) (cap s)); try discriminate.
    inversion E; subst s'; clear E. simpl in *. apply Hkeep.
    destruct (Nat.eq_dec t' t) as [->|Nt]; [rewrite upd_same in Ht'; discriminate|now rewrite upd_other in Ht'].
  - (* LHandoff *)
    destruct (thr s t) as [|p|p|p c|p c|p|p] eqn:Et; try discriminate.
    destruct (v_send _ I _ _ _ Et) as (_ & _ & _ & Hcl & _).
    assert (Hcc : chan_closed s = false) by (destruct (v_closed _ I) as [H1 H2]; congruence).
    rewrite Hcc in E. destruct (buf s); try discriminate.
    inversion E; subst s'; clear E. simpl in *. apply Hkeep.
    destruct (Nat.eq_dec t' t) as [->|Nt]; [rewrite upd_same in Ht'; discriminate|now rewrite upd_other in Ht'].
  - (* LSeeAcked *)
    destruct (thr s t) as [|p|p|p c|p c|p|p] eqn:Et; try discriminate.
    destruct (c_st (copies s c)) eqn:Est; try discriminate. inversion E; subst s'; clear E. simpl in *.
    destruct (Nat.eq_dec t' t) as [->|Nt]; [|apply Hkeep; now rewrite upd_other in Ht'].
    destruct (v_wait _ I _ _ _ Et) as (Hlt & _ & Hown). exists c. auto.
  - (* LSeeNacked *)
    destruct (thr s t) as [|p|p|p c|p c|p|p] eqn:Et; try discriminate.
    destruct (c_st (copies s c)) eqn:Est; try discriminate. inversion E; subst s'; clear E. simpl in *.
    apply Hkeep.
    destruct (Nat.eq_dec t' t) as [->|Nt]; [rewrite upd_same in Ht'; discriminate|now rewrite upd_other in Ht'].
Qed.

(** * counting received copies of a publication *)
Fixpoint cntf (f : nat -> bool) (n : nat) : nat :=
  match n with O => 0 | S n' => cntf f n' + (if f n' then 1 else 0) end.
Lemma cntf_ext f g n : (forall c, c < n -> g c = f c) -> cntf g n = cntf f n.
Proof.
  induction n as [|n IH]; intros E; simpl; [reflexivity|]. rewrite IH, (E n); auto.
Qed.
Lemma cntf_upd f g c n : c < n -> (forall c', c' < n -> c' <> c -> g c' = f c') -> f c = false ->
  cntf g n = cntf f n + (if g c then 1 else 0).
Proof.
  induction n as [|n IH]; intros Hlt E Hf; [lia|]. simpl.
  destruct (Nat.eq_dec c n) as [->|Nc].
  - rewrite (cntf_ext f g n), Hf; [lia|]. intros c' Hc'. apply E; lia.
  - rewrite IH, (E n); auto; lia.
Qed.
Lemma cntf_le1 f n : (forall c1 c2, c1 < n -> c2 < n -> f c1 = true -> f c2 = true -> c1 = c2) ->
  cntf f n <= 1.
Proof.
  induction n as [|n IH]; intros U; simpl; [lia|].
  assert (IH' : cntf f n <= 1) by (apply IH; intros; apply U; auto).
  destruct (f n) eqn:Efn; [|lia].
  assert (Hz : cntf f n = 0).
  { clear IH IH'. assert (Hall : forall c, c < n -> f c = false).
    { intros c Hc. destruct (f c) eqn:Ec; [|reflexivity]. assert (c = n) by (apply U; auto). lia. }
    clear U Efn. induction n as [|m IHm]; simpl; [reflexivity|]. rewrite IHm, Hall; auto. }
  lia.
Qed.
Lemma cntf_pos f n c : c < n -> f c = true -> 0 < cntf f n.
Proof.
  induction n as [|n IH]; intros Hlt Hf; [lia|]. simpl.
  destruct (Nat.eq_dec c n) as [->|Nc]; [rewrite Hf; lia|]. assert (0 < cntf f n) by (apply IH; auto; lia). lia.
Qed.

Definition recvd (s : sstate) (p : pubid) (c : cid) : bool :=
  c_recv (copies s c) && Nat.eqb (c_pub (copies s c)) p.
Definition nrecv (s : sstate) (p : pubid) : nat := cntf (recvd s p) (next s).

Lemma count_recv_app h1 h2 x p : count_recv (h1 ++ h2) x p = count_recv h1 x p + count_recv h2 x p.
Proof. unfold count_recv. now rewrite filter_app, app_length. Qed.

(** a step that changes at most one existing copy *)
Lemma nrecv_same s s' p : next s' = next s ->
  (forall c, c < next s -> c_recv (copies s' c) = c_recv (copies s c)
                           /\ c_pub (copies s' c) = c_pub (copies s c)) ->
  nrecv s' p = nrecv s p.
Proof.
  intros En E. unfold nrecv. rewrite En. apply cntf_ext. intros c Hc. unfold recvd.
  destruct (E c Hc) as [-> ->]. reflexivity.
Qed.

Section Count.
Variable x : nat.

Lemma count_step s l s' rest p : SX s -> Y s (l :: rest) -> sstep s l = Some s' ->
  nrecv s' p = nrecv s p + count_recv (emit x s l) x p.
Proof.
  intros [I X] Hy E.
  assert (Hrecv : forall c q y, c < next s -> c_recv (copies s c) = false ->
            c_recv y = true -> c_pub y = q -> c_pub (copies s c) = q ->
            nrecv (set_copy s c y) p = nrecv s p + count_recv [ARecv x q c true true true] x p).
  { intros c q y Hlt Hur Hr Hq Hq'. unfold nrecv. simpl.
    rewrite (cntf_upd (recvd s p) (recvd (set_copy s c y) p) c (next s) Hlt).
    - unfold recvd. simpl. rewrite upd_same, Hr, Hq. unfold count_recv. simpl.
      rewrite Nat.eqb_refl, (Nat.eqb_sym p q). destruct (Nat.eqb q p); reflexivity.
    - intros c' _ Nc. unfold recvd. simpl. now rewrite upd_other.
    - unfold recvd. now rewrite Hur. }
  destruct l as [t q|  | | |t|t|t|t|t|t| |c|c]; simpl in E.
  - sstep_cases E. simpl. rewrite Nat.add_0_r. apply nrecv_same; simpl; auto.
  - sstep_cases E. simpl. rewrite Nat.add_0_r. apply nrecv_same; simpl; auto.
  - sstep_cases E. simpl. unfold count_recv; simpl. rewrite Nat.add_0_r. apply nrecv_same; simpl; auto.
  - sstep_cases E; simpl; rewrite Nat.add_0_r; apply nrecv_same; simpl; auto.
  - (* LStep *)
    destruct (thr s t) as [|q|q|q c|q c|q|q] eqn:Et; try discriminate.
    + sstep_cases E. simpl. rewrite Nat.add_0_r. apply nrecv_same; simpl; auto.
    + assert (Hexit : nrecv (set_thr s t (SExit q)) p = nrecv s p + count_recv (emit x s (LStep t)) x p).
      { simpl. rewrite Nat.add_0_r. apply nrecv_same; simpl; auto. }
      destruct (closedf s); [inversion E; subst; exact Hexit|].
      destruct (fixed s && closing s); inversion E; subst; [exact Hexit|].
      simpl. rewrite Nat.add_0_r. unfold nrecv. simpl.
      unfold recvd at 2. simpl. rewrite upd_same. simpl. rewrite Nat.add_0_r.
      apply cntf_ext. intros c Hc. unfold recvd. simpl. rewrite upd_other by lia. reflexivity.
    + sstep_cases E. simpl. rewrite Nat.add_0_r. apply nrecv_same; simpl; auto.
  - (* LSendBuf *)
    destruct (thr s t) as [|q|q|q c|q c|q|q] eqn:Et; try discriminate.
    sstep_cases E; simpl; rewrite Nat.add_0_r; apply nrecv_same; simpl; auto.
    intros c' Hc'. updt c c'; simpl; auto.
  - (* LHandoff *)
    destruct (thr s t) as [|q|q|q c|q c|q|q] eqn:Et; try discriminate.
    destruct (v_send _ I _ _ _ Et) as (Hlt & Hus & Hown & Hcl & _).
    assert (Hcc : chan_closed s = false) by (destruct (v_closed _ I) as [H1 H2]; congruence).
    rewrite Hcc in E. destruct (buf s); try discriminate. inversion E; subst s'; clear E.
    simpl emit. rewrite Et.
    assert (Hp : c_pub (copies s c) = q).
    { pose proof (y_copy s _ Hy c Hlt) as Hc. rewrite Hown, Et in Hc. simpl in Hc. congruence. }
    replace (nrecv (set_thr (set_copy s c (mark_recv (mark_sent (copies s c)))) t (SWait q c)) p)
      with (nrecv (set_copy s c (mark_recv (mark_sent (copies s c)))) p) by reflexivity.
    apply Hrecv; auto. now apply unsent_unrecv.
  - destruct (closing s); try discriminate.
    destruct (thr s t) as [|q|q|q c|q c|q|q] eqn:Et; try discriminate; inversion E; subst;
      simpl; rewrite Nat.add_0_r; apply nrecv_same; simpl; auto.
  - destruct (thr s t) as [|q|q|q c|q c|q|q] eqn:Et; try discriminate.
    sstep_cases E. simpl. rewrite Nat.add_0_r. apply nrecv_same; simpl; auto.
  - destruct (thr s t) as [|q|q|q c|q c|q|q] eqn:Et; try discriminate.
    sstep_cases E. simpl. rewrite Nat.add_0_r. apply nrecv_same; simpl; auto.
  - (* LRecv *)
    destruct (buf s) as [|c b] eqn:Eb; try discriminate. inversion E; subst s'; clear E.
    simpl emit. rewrite Eb.
    assert (Hin : In c (buf s)) by (rewrite Eb; now left).
    destruct (v_buf _ I c Hin) as [Hlt _].
    replace (nrecv (set_buf (set_copy s c (mark_recv (copies s c))) b) p)
      with (nrecv (set_copy s c (mark_recv (copies s c))) p) by reflexivity.
    apply Hrecv; auto. now apply (x_buf_unrecv s X).
  - (* LAck *)
    sstep_cases E; simpl; unfold count_recv; simpl; rewrite Nat.add_0_r; auto.
    apply nrecv_same; simpl; auto. intros c' Hc'. updt c c'; simpl; auto.
  - sstep_cases E; simpl; unfold count_recv; simpl; rewrite Nat.add_0_r; auto.
    apply nrecv_same; simpl; auto. intros c' Hc'. updt c c'; simpl; auto.
Qed.

Lemma count_run ls : forall s p, SX s -> Y s ls ->
  nrecv (srun s ls) p = nrecv s p + count_recv (trace x s ls) x p.
Proof.
  induction ls as [|l ls IH]; intros s p H Hy; simpl; [unfold count_recv; simpl; lia|].
  destruct (sstep s l) as [s'|] eqn:E; [|apply IH; auto; eapply y_skip; eauto].
  rewrite count_recv_app, IH; [|eapply sx_step; eauto|destruct H; eapply y_step; eauto].
  rewrite (count_step s l s' ls p H Hy E). lia.
Qed.
End Count.

(** * the run with an acking consumer *)
Definition Acking (s : sstate) (rest : list label) : Prop :=
  SX s /\ Y s rest /\ NoNacked s /\ DoneAcked s.

Lemma acking_run ls : forall s, Acking s ls -> no_nack ls = true -> Acking (srun s ls) [].
Proof.
  induction ls as [|l ls IH]; intros s A Hn; simpl; [exact A|].
  simpl in Hn. apply andb_true_iff in Hn as [Hl Hn].
  destruct A as (H & Hy & N & D).
  destruct (sstep s l) as [s'|] eqn:E.
  - apply IH; [|exact Hn]. destruct H as [I X]. split; [split|split; [|split]].
    + eapply sstep_inv; eauto.
    + eapply xinv_step; eauto.
    + eapply y_step; eauto.
    + eapply nonacked_step; eauto. intros c ->. discriminate.
    + eapply doneacked_step; eauto.
  - apply IH; [|exact Hn]. split; [exact H|]. split; [eapply y_skip; eauto|]. split; assumption.
Qed.
Lemma acking_init cap0 fx ls : NoDup (spawn_pubs ls) -> Acking (sinit cap0 fx) ls.
Proof.
  intros Hd. split; [apply (sx_reach cap0 fx [])|]. split; [now apply y_init|]. split.
  - intros c. simpl. discriminate.
  - intros _ t. simpl. discriminate.
Qed.

Section Once.
Variables (x cap0 : nat) (fx : bool) (ls : list label).
Hypotheses (Hnn : no_nack ls = true) (Hnd : NoDup (spawn_pubs ls)).
Let a := srun (sinit cap0 fx) ls.
Let h := trace x (sinit cap0 fx) ls.

Lemma acking_final : Acking a [].
Proof. apply acking_run; [now apply acking_init|exact Hnn]. Qed.

(** every Sender made at most one copy *)
Theorem acking_one_copy_per_sender c1 c2 : c1 < next a -> c2 < next a ->
  c_thr (copies a c1) = c_thr (copies a c2) -> c1 = c2.
Proof.
  destruct acking_final as ([I X] & Hy & N & D). intros H1 H2 Et.
  destruct (Nat.lt_trichotomy c1 c2) as [Hl|[He|Hg]]; [|exact He|]; exfalso.
  - apply (N c1). now apply (v_dup _ I c1 c2).
  - apply (N c2). now apply (v_dup _ I c2 c1).
Qed.

Theorem recv_count_is_state p : count_recv h x p = nrecv a p.
Proof.
  pose proof (count_run x ls (sinit cap0 fx) p (sx_reach cap0 fx []) (y_init cap0 fx ls Hnd)) as Hc.
  fold a h in Hc. unfold nrecv at 2 in Hc. simpl in Hc. lia.
Qed.

Lemma recvd_unique p c1 c2 : c1 < next a -> c2 < next a ->
  recvd a p c1 = true -> recvd a p c2 = true -> c1 = c2.
Proof.
  destruct acking_final as ([I X] & Hy & N & D). intros H1 H2 R1 R2. unfold recvd in *.
  apply andb_true_iff in R1 as [_ P1]. apply andb_true_iff in R2 as [_ P2].
  apply Nat.eqb_eq in P1, P2. apply acking_one_copy_per_sender; auto.
  apply (y_uniq a [] Hy _ _ p); [rewrite <- P1|rewrite <- P2]; now apply (y_copy a [] Hy).
Qed.

(** at most once *)
Theorem acking_at_most_once p : count_recv h x p <= 1.
Proof.
  rewrite recv_count_is_state. unfold nrecv. apply cntf_le1. intros c1 c2. apply recvd_unique.
Qed.

(** exactly once, once the Sender has returned on a subscription that was never cancelled *)
Theorem acking_exactly_once t p : closing a = false -> thr a t = SDone p ->
  count_recv h x p = 1
  /\ exists c, c < next a /\ c_thr (copies a c) = t /\ c_pub (copies a c) = p
               /\ c_recv (copies a c) = true /\ c_st (copies a c) = Acked.
Proof.
  destruct acking_final as ([I X] & Hy & N & D). intros Hc Et.
  destruct (D Hc t) as (c & Hlt & Hown & Hack); [now rewrite Et|].
  assert (Hr : c_recv (copies a c) = true) by (apply (x_settled a X); congruence).
  assert (Hp : c_pub (copies a c) = p).
  { pose proof (y_copy a [] Hy c Hlt) as Hcp. rewrite Hown, Et in Hcp. simpl in Hcp. congruence. }
  split; [|exists c; auto].
  pose proof (acking_at_most_once p) as Hle. rewrite recv_count_is_state in *.
  assert (0 < nrecv a p); [|lia]. apply (cntf_pos _ _ c Hlt). unfold recvd.
  now rewrite Hr, Hp, Nat.eqb_refl.
Qed.
End Once.

(** non-vacuity: two Senders, acking consumer, run to the end *)
Example acking_example :
  let ls := [LSpawn 0 10; LSpawn 1 11; LStep 0; LStep 0; LHandoff 0; LAck 0; LSeeAcked 0; LStep 0;
             LStep 1; LStep 1; LHandoff 1; LAck 1; LSeeAcked 1; LStep 1] in
  let a := srun (sinit 0 true) ls in
  no_nack ls = true /\ closing a = false /\ thr a 0 = SDone 10 /\ thr a 1 = SDone 11
  /\ count_recv (trace 7 (sinit 0 true) ls) 7 10 = 1 /\ count_recv (trace 7 (sinit 0 true) ls) 7 11 = 1.
Proof. vm_compute. repeat split; reflexivity. Qed.

Print Assumptions acking_one_copy_per_sender.
Print Assumptions acking_at_most_once.
Print Assumptions acking_exactly_once.
