(** Termination of the composed system (GoChannel/Compose.v): ONE combined measure.

      M c  :=  W * RegLive.measure (cg c)                     (registry, weighted)
             + sum over x in X of SubLive.measure T (ci c x)  (the instances)
             + A c                                            (sent but not yet acked publications)
      W    :=  6 * length T * length X + 2

    T (thread ids = publication ids) and X (subscriptions) are fixed lists.  A registry step may
    spawn Senders (rank 6 each, at most length T per instance, length X instances) and add one
    unacked publication: that is what the weight pays for.

      sync_run_rank            : a batch of synchronised labels raises no thread's rank by more
                                 than 6 and does not raise the teardown's.
      composed_step_decreases  : every step of the composition that is neither the consumer's nor
                                 an API call - a registry-internal step, a USEFUL GAllAcked p
                                 (p not yet acked), a Sender's / teardown's own step of an instance
                                 x in X whose started threads are in T - strictly decreases M.
      consumer_step_measure    : LRecv / LAck leave M unchanged, LNack raises it by <= 3 * length T. *)
From WM Require Import Base.Prelude GoChannel.Reg GoChannel.RegLocks GoChannel.RegInv
                       GoChannel.RegSend GoChannel.RegLive GoChannel.Compose GoChannel.ComposeLive
                       GoChannel.ComposeMeasure.
From WM Require GoChannel.Sub GoChannel.SubProofs GoChannel.SubInvX GoChannel.SubLive
                GoChannel.SubSpawn GoChannel.SubMeasure.

Definition syncl (l : Sub.label) : bool :=
  match l with Sub.LSpawn _ _ | Sub.LTdSpawn | Sub.LTdWake => true | _ => false end.

Lemma sync_step_rank s l s' t : syncl l = true -> Sub.sstep s l = Some s' ->
  (match Sub.thr s' t with Sub.SNone => 6 | _ => SubLive.s_rank s' t end)
  <= (match Sub.thr s t with Sub.SNone => 6 | _ => SubLive.s_rank s t end)
  /\ SubLive.td_rank (Sub.td s') <= SubLive.td_rank (Sub.td s).
Proof.
  intros Hl E. destruct l; try discriminate Hl; simpl in E; SubInvX.sstep_cases E;
    unfold SubLive.s_rank; simpl; try (split; lia).
  split; [|lia]. destruct (Nat.eq_dec t t0) as [->|N]; [rewrite upd_same, Heqs0; lia|].
  rewrite upd_other by exact N. lia.
Qed.
Lemma sync_run_rank ls : Forall (fun l => syncl l = true) ls -> forall s t,
  (match Sub.thr (Sub.srun s ls) t with Sub.SNone => 6 | _ => SubLive.s_rank (Sub.srun s ls) t end)
  <= (match Sub.thr s t with Sub.SNone => 6 | _ => SubLive.s_rank s t end)
  /\ SubLive.td_rank (Sub.td (Sub.srun s ls)) <= SubLive.td_rank (Sub.td s).
Proof.
  induction ls as [|l ls IH]; intros Hf s t; simpl; [split; lia|].
  inversion Hf; subst. destruct (Sub.sstep s l) as [s'|] eqn:E; [|now apply IH].
  destruct (sync_step_rank s l s' t H1 E) as [A B]. destruct (IH H2 s' t) as [C D]. split; lia.
Qed.
Lemma sync_run_measure T ls s : Forall (fun l => syncl l = true) ls ->
  SubLive.measure T (Sub.srun s ls) <= SubLive.measure T s + 6 * length T.
Proof.
  intros Hf. unfold SubLive.measure.
  assert (H1 : SubLive.sumf (SubLive.s_rank (Sub.srun s ls)) T
               <= SubLive.sumf (SubLive.s_rank s) T + 6 * length T).
  { apply SubMeasure.sumf_le_add. intros t. destruct (sync_run_rank ls Hf s t) as [A _].
    unfold SubLive.s_rank in *. destruct (Sub.thr (Sub.srun s ls) t), (Sub.thr s t); lia. }
  destruct (sync_run_rank ls Hf s 0) as [_ B]. lia.
Qed.

Lemma own_sync_syncl g l x : Forall (fun l => syncl l = true) (own x (sync g l)).
Proof.
  unfold sync. destruct l as [t k ms|t|s k|s|q|t|s|s]; try constructor.
  - destruct (thr g t) as [| | | | |k rem| | | | | | | | | |]; try constructor.
    destruct rem as [|q rem]; [constructor|]. rewrite own_snap. unfold SubSpawn.spawns.
    apply Forall_forall. intros l Hl. apply in_map_iff in Hl as (q' & <- & _). reflexivity.
  - destruct (sb g s) as [| | | | | |k| | | | |]; try constructor.
    + unfold own. simpl. destruct (Nat.eqb s x); simpl; repeat constructor.
    + rewrite own_replay. destruct (Nat.eqb s x); [|constructor]. unfold SubSpawn.spawns.
      apply Forall_forall. intros l Hl. apply in_map_iff in Hl as (q' & <- & _). reflexivity.
  - destruct (td g s); try constructor. unfold own. simpl. destruct (Nat.eqb s x); simpl; repeat constructor.
Qed.

Section Measure.
Variables (T : list tid) (X : list subid).

Definition IM (c : cstate) : nat := SubLive.sumf (fun y => SubLive.measure T (ci c y)) X.
Definition unacked (g : gstate) : nat := length (filter (fun p => negb (mem p (acked g))) (sent g)).
Definition W : nat := 6 * length T * length X + 2.
Definition M (c : cstate) : nat := W * measure (cg c) + IM c + unacked (cg c).

Lemma reg_step_IM c l c' : cstep c (CReg l) = Some c' -> IM c' <= IM c + 6 * length T * length X.
Proof.
  intros E. simpl in E. destruct (guard c l); [|discriminate].
  destruct (gstep (cg c) l) as [g'|]; [|discriminate]. inversion E; subst c'; clear E. unfold IM. simpl.
  replace (6 * length T * length X) with ((6 * length T) * length X) by lia.
  apply SubMeasure.sumf_le_add. intros y. rewrite apply_sync_proj. apply sync_run_measure, own_sync_syncl.
Qed.

Lemma filter_len_le {A} (f g : A -> bool) l : (forall a, g a = true -> f a = true) ->
  length (filter g l) <= length (filter f l).
Proof.
  intros H. induction l as [|a l IH]; simpl; [lia|]. destruct (g a) eqn:Eg.
  - rewrite (H a Eg). simpl. lia.
  - destruct (f a); simpl; lia.
Qed.
Lemma unacked_step g l g' : gstep g l = Some g' -> (forall p, l <> GAllAcked p) ->
  unacked g' <= unacked g + 1.
Proof.
  intros H Hl. unfold unacked. step_cases' H; simpl; try lia; try (exfalso; eapply Hl; reflexivity).
  all: try (destruct (negb _); simpl; lia).
  all: try (match goal with |- context [Nat.eqb ?a ?a] => rewrite Nat.eqb_refl end; simpl).
  all: try (pose proof (filter_len_le (fun p0 => negb (mem p0 (acked g))) (fun p0 => negb (Nat.eqb p0 p || mem p0 (acked g))) (sent g)) as F;
            assert (F' := F ltac:(intros a Ha; apply negb_true_iff in Ha; apply orb_false_iff in Ha as [_ Ha]; now rewrite Ha)); lia).
Qed.
Lemma unacked_useful g p g' : gstep g (GAllAcked p) = Some g' -> mem p (acked g) = false ->
  unacked g' < unacked g /\ measure g' = measure g.
Proof.
  intros H Hn. simpl in H. destruct (mem p (sent g)) eqn:Es; [|discriminate]. inversion H; subst g'; clear H.
  split; [|reflexivity]. unfold unacked. simpl. apply mem_In in Es.
  induction (sent g) as [|a l IH]; [destruct Es|]. simpl.
  destruct (Nat.eq_dec a p) as [->|N].
  - rewrite Nat.eqb_refl, Hn. simpl.
    pose proof (filter_len_le (fun p0 => negb (mem p0 (acked g))) (fun p0 => negb (Nat.eqb p0 p || mem p0 (acked g))) l) as F.
    assert (F' := F ltac:(intros a Ha; apply negb_true_iff in Ha; apply orb_false_iff in Ha as [_ Ha]; now rewrite Ha)). lia.
  - destruct Es as [Es|Es]; [congruence|]. specialize (IH Es). apply Nat.eqb_neq in N. rewrite N. simpl.
    destruct (negb (mem a (acked g))); simpl; lia.
Qed.
End Measure.

(** the labels that count: everything of the composition except the consumer's steps, API calls
    and a redundant GAllAcked (p already acked) *)
Definition counted (c : cstate) (cl : clabel) : bool :=
  match cl with
  | CReg (GAllAcked p) => negb (mem p (acked (cg c)))
  | CReg l => internal l
  | CSub _ l => SubMeasure.moving l
  end.

Lemma moving_started s l s' : SubMeasure.moving l = true -> Sub.sstep s l = Some s' ->
  (exists t, Sub.thr s t <> Sub.SNone) \/ SubLive.woken (Sub.td s) = true.
Proof.
  intros Hm E. destruct l; try discriminate Hm; simpl in E.
  - right. destruct (Sub.td s); try discriminate E; reflexivity.
  - left. exists t. destruct (Sub.thr s t); try discriminate E; discriminate.
  - left. exists t. destruct (Sub.thr s t); try discriminate E; discriminate.
  - left. exists t. destruct (Sub.thr s t); try discriminate E; discriminate.
  - left. exists t. destruct (Sub.closing s); [|discriminate]. destruct (Sub.thr s t); try discriminate E; discriminate.
  - left. exists t. destruct (Sub.thr s t); try discriminate E; discriminate.
  - left. exists t. destruct (Sub.thr s t); try discriminate E; discriminate.
Qed.

Section Reachable.
Variables (pers blk fx : bool) (caps : subid -> nat) (fa : bool) (cls : list clabel).
Variables (T : list tid) (X : list subid).
Let c := crun (cinit pers blk fx caps fa) cls.
Hypotheses (HT : forall p, In p (used (cg c)) -> In p T) (HX : forall x, In x (allsubs (cg c)) -> In x X).

Lemma active_instance_in_X x l s' : SubMeasure.moving l = true -> Sub.sstep (ci c x) l = Some s' -> In x X.
Proof.
  intros Hm E. apply HX. destruct (comp_reg_inv pers blk fx caps fa cls) as (I0 & I1 & I2). fold c in I0, I1, I2.
  apply cnt_pos_In. rewrite (r_allsubs _ I1 x).
  assert (Hs : sb (cg c) x <> SNone); [|destruct (sb (cg c) x); simpl; try lia; congruence].
  destruct (moving_started _ _ _ Hm E) as [[t Ht]|Hw].
  - pose proof (comp_link pers blk fx caps fa cls) as L. fold c in L.
    destruct (scnt t x (senders (cg c))) eqn:Es; [exfalso; apply Ht; now apply (k_none c L)|].
    destruct (s_snd _ I2 t x) as (_ & Hr & _); [lia|]. intros Hn. rewrite Hn in Hr. discriminate.
  - pose proof (tdlink pers blk fx caps fa cls x) as TL. fold c in TL. unfold td_agree in TL.
    intros Hn. pose proof (o_early _ I0 x) as Oe. rewrite Hn in Oe. rewrite (Oe eq_refl) in TL.
    rewrite TL in Hw. discriminate.
Qed.
Lemma inst_covers_T x : SubLive.covers T (ci c x).
Proof.
  intros t Ht. apply HT. destruct (comp_reg_inv pers blk fx caps fa cls) as (_ & _ & I2). fold c in I2.
  apply (s_sent_used _ I2). now apply (inst_covers pers blk fx caps fa cls x t).
Qed.

Theorem composed_step_decreases cl c' : counted c cl = true -> cstep c cl = Some c' ->
  M T X c' < M T X c.
Proof.
  intros Hc E. unfold M. destruct cl as [l|x l].
  - destruct (match l with GAllAcked _ => true | _ => false end) eqn:Ea.
    + destruct l; try discriminate Ea. simpl in Hc. apply negb_true_iff in Hc.
      unfold cstep in E. destruct (guard c (GAllAcked p)); [|discriminate].
      destruct (gstep (cg c) (GAllAcked p)) as [g'|] eqn:Es; [|discriminate]. inversion E; subst c'; clear E.
      destruct (unacked_useful _ _ _ Es Hc) as [A B]. unfold IM. simpl. rewrite B. lia.
    + assert (Hi : internal l = true) by (destruct l; try discriminate Ea; exact Hc).
      pose proof (composed_reg_step_decreases pers blk fx caps fa cls l c' Hi E) as Hm. fold c in Hm.
      pose proof (reg_step_IM T X c l c' E) as Him.
      assert (Hu : unacked (cg c') <= unacked (cg c) + 1).
      { simpl in E. destruct (guard c l); [|discriminate].
        destruct (gstep (cg c) l) as [g'|] eqn:Es; [|discriminate]. inversion E; subst c'. simpl.
        apply (unacked_step _ l); auto. intros p ->. discriminate Ea. }
      unfold W in *. nia.
  - simpl in Hc.
    destruct (composed_sub_step_decreases pers blk fx caps fa cls x l c' Hc E) as (_ & Hg & Ho). fold c in Hg, Ho.
    simpl in E. destruct (free_sub l); [|discriminate].
    destruct (Sub.sstep (ci c x) l) as [s'|] eqn:Es; [|discriminate]. inversion E; subst c'; clear E. simpl in *.
    assert (Hd : SubLive.measure T s' < SubLive.measure T (ci c x)).
    { apply (SubMeasure.moving_step_decreases T (ci c x) l s'); auto;
        [apply (comp_sub_sx pers blk fx caps fa cls x)|apply inst_covers_T]. }
    assert (IM T X (CS (cg c) (upd (ci c) x s') (csnap c)) < IM T X c); [|lia].
    unfold IM. simpl. apply SubLive.sumf_lt with x.
    + intros y. destruct (Nat.eq_dec y x) as [->|N]; [rewrite upd_same; lia|rewrite upd_other by exact N; lia].
    + rewrite upd_same. exact Hd.
    + eapply active_instance_in_X; eauto.
Qed.

(** every other executed label that is not an API call: the consumer's, or a redundant GAllAcked *)
Theorem uncounted_step_measure cl c' : counted c cl = false -> env_call cl = false ->
  cstep c cl = Some c' ->
  M T X c' <= M T X c + (if nack_step cl then 3 * length T * length X else 0).
Proof.
  intros Hc He E. unfold M. destruct cl as [l|x l].
  - destruct l as [t k ms|t|s k|s|p|t|s|s]; try discriminate He; try discriminate Hc.
    simpl in Hc. apply negb_false_iff in Hc. unfold cstep in E.
    destruct (guard c (GAllAcked p)); [|discriminate]. simpl in E.
    destruct (mem p (sent (cg c))) eqn:Es; [|discriminate]. inversion E; subst c'; clear E.
    cbn [cg ci csnap apply_sync sync].
    change (measure (with_acked (cg c) (p :: acked (cg c)))) with (measure (cg c)).
    assert (HI : IM T X {| cg := with_acked (cg c) (p :: acked (cg c)); ci := ci c; csnap := csnap c |} = IM T X c) by reflexivity.
    rewrite HI. unfold unacked. simpl.
    pose proof (filter_len_le (fun p0 => negb (mem p0 (acked (cg c)))) (fun p0 => negb (Nat.eqb p0 p || mem p0 (acked (cg c)))) (sent (cg c))) as F.
    assert (F' := F ltac:(intros a Ha; apply negb_true_iff in Ha; apply orb_false_iff in Ha as [_ Ha]; now rewrite Ha)). lia.
  - simpl in Hc. simpl in E. destruct (free_sub l) eqn:Ef; [|discriminate].
    destruct (Sub.sstep (ci c x) l) as [s'|] eqn:Es; [|discriminate]. inversion E; subst c'; clear E. simpl.
    assert (Hi : SubLive.measure T s' <= SubLive.measure T (ci c x) + (if nack_step (CSub x l) then 3 * length T else 0)).
    { destruct l; try discriminate Hc; try discriminate Ef; simpl.
      - rewrite (SubMeasure.recv_ack_measure T (ci c x) Sub.LRecv s'); auto; lia.
      - rewrite (SubMeasure.recv_ack_measure T (ci c x) (Sub.LAck c0) s'); eauto; lia.
      - apply (SubMeasure.nack_measure T (ci c x) c0 s' Es). }
    assert (IM T X (CS (cg c) (upd (ci c) x s') (csnap c))
            <= IM T X c + (if nack_step (CSub x l) then 3 * length T else 0) * length X).
    { unfold IM. simpl. apply SubMeasure.sumf_le_add. intros y.
      destruct (Nat.eq_dec y x) as [->|N]; [rewrite upd_same; exact Hi|rewrite upd_other by exact N; lia]. }
    clear Hi Es. destruct l; simpl in *; nia.
Qed.
End Reachable.

(** * Runs *)
Lemma crun_snoc c0 cls cl :
  crun c0 (cls ++ [cl]) = match cstep (crun c0 cls) cl with Some c' => c' | None => crun c0 cls end.
Proof.
  revert c0. induction cls as [|l cls IH]; intros c0; simpl.
  - now destruct (cstep c0 cl).
  - destruct (cstep c0 l); apply IH.
Qed.
Lemma envfree_keeps c cl c' : env_call cl = false -> cstep c cl = Some c' ->
  used (cg c') = used (cg c) /\ allsubs (cg c') = allsubs (cg c).
Proof.
  intros He E. destruct cl as [l|x l]; simpl in E.
  - destruct (guard c l); [|discriminate]. destruct (gstep (cg c) l) as [g'|] eqn:Es; [|discriminate].
    inversion E; subst c'; clear E. simpl. step_cases' Es; simpl; auto; discriminate He.
  - destruct (free_sub l); [|discriminate]. destruct (Sub.sstep (ci c x) l); [|discriminate].
    inversion E; subst c'. auto.
Qed.
(** number of executed counted labels of a run *)
Fixpoint ccount (c : cstate) (cls : list clabel) : nat :=
  match cls with
  | [] => 0
  | cl :: cls' => match cstep c cl with
                  | Some c' => (if counted c cl then 1 else 0) + ccount c' cls'
                  | None => ccount c cls'
                  end
  end.

Definition budget (T : list tid) (X : list subid) : nat := 3 * length T * length X.
Arguments budget : simpl never.

Theorem composed_run_bounded pers blk fx caps fa T X cls' : forall cls,
  let c := crun (cinit pers blk fx caps fa) cls in
  (forall p, In p (used (cg c)) -> In p T) -> (forall x, In x (allsubs (cg c)) -> In x X) ->
  forallb (fun cl => negb (env_call cl)) cls' = true ->
  ccount c cls' + M T X (crun c cls')
  <= M T X c + budget T X * count_exec nack_step c cls'.
Proof.
  induction cls' as [|cl cls' IH]; intros cls c HT HX Hf; simpl in *; [lia|].
  apply andb_true_iff in Hf as [He Hf]. apply negb_true_iff in He.
  destruct (cstep c cl) as [c'|] eqn:E; [|now apply IH].
  assert (Hc' : c' = crun (cinit pers blk fx caps fa) (cls ++ [cl])).
  { rewrite crun_snoc. fold c. now rewrite E. }
  destruct (envfree_keeps c cl c' He E) as [Eu Ea].
  specialize (IH (cls ++ [cl])). simpl in IH. rewrite <- Hc' in IH.
  assert (IH' := IH ltac:(intros p; rewrite Eu; apply HT) ltac:(intros x; rewrite Ea; apply HX) Hf).
  destruct (counted c cl) eqn:Ec.
  - pose proof (composed_step_decreases pers blk fx caps fa cls T X HT HX cl c' Ec E) as Hd. fold c in Hd.
    assert (Hn : nack_step cl = false).
    { destruct cl as [l|x l]; [reflexivity|]. destruct l; try reflexivity. discriminate Ec. }
    rewrite Hn. lia.
  - pose proof (uncounted_step_measure pers blk fx caps fa cls T X cl c' Ec He E) as Hd. fold c in Hd.
    change (3 * length T * length X) with (budget T X) in Hd.
    destruct (nack_step cl); nia.
Qed.

(** C05 "every blocking Publish returns" in the composition: from a reachable state c, along
    every run without API calls (Publish / Subscribe / cancel / Close) the number of executed
    steps that are not the consumer's (and not a redundant GAllAcked) is at most
    M c + 3|T||X| * (number of Nacks) - with a Nack budget every such run is finite up to consumer
    steps; and in a state where nothing of the composition, consumers included, is enabled and no
    writer is pending or holding, every Publish has returned. *)
Theorem blocking_returns_composed pers blk fx caps fa cls cls' :
  let c := crun (cinit pers blk fx caps fa) cls in
  let T := used (cg c) in let X := allsubs (cg c) in
  forallb (fun cl => negb (env_call cl)) cls' = true ->
  ccount c cls' <= M T X c + budget T X * count_exec nack_step c cls'
  /\ (writer (cg (crun c cls')) = None -> wpending (cg (crun c cls')) = [] ->
      ~ CProg (crun c cls') -> forall t, publish_pending (thr (cg (crun c cls')) t) = false).
Proof.
  intros c T X Hf. split.
  - pose proof (composed_run_bounded pers blk fx caps fa T X cls' cls (fun p H => H) (fun x H => H) Hf) as H.
    fold c in H. lia.
  - assert (Hr : crun c cls' = crun (cinit pers blk fx caps fa) (cls ++ cls')).
    { unfold c. clear. revert cls'. generalize (cinit pers blk fx caps fa). induction cls as [|l cls IH]; intros c0 cls'; simpl; [reflexivity|].
      destruct (cstep c0 l); apply IH. }
    rewrite Hr. apply stuck_means_published.
Qed.

Print Assumptions composed_step_decreases.
Print Assumptions uncounted_step_measure.
Print Assumptions composed_run_bounded.
Print Assumptions blocking_returns_composed.
