(** Progress of the composed system (GoChannel/Compose.v) in blocking mode.

      tdlink                 : the registry's teardown pc and the instance's teardown agree
                               (DNone/TNone, DIdle/TIdle, DSubClose/woken).
      blocking_progress_composed (= blocking_returns_composed_partial) :
        every reachable composed state in which no Subscribe / replay / teardown holds or has
        announced the write lock and something in the registry is busy has an enabled composed
        label that is a registry-internal step, a Sender's / teardown's own step in some
        instance, or a CONSUMER step (LRecv / LHandoff / LAck / LNack).  So a blocked Publish
        waits for nothing but its subscribers' consumers.
      What is still missing for the full [blocking_returns_composed] (termination) is stated
      at the end of the file. *)
From WM Require Import Base.Prelude GoChannel.Reg GoChannel.RegLocks GoChannel.RegInv
                       GoChannel.RegSend GoChannel.RegLive GoChannel.RegBlock GoChannel.Compose.
From WM Require Message.Model GoChannel.Sub GoChannel.SubProofs GoChannel.SubInvX GoChannel.SubLive
                GoChannel.SubSpawn GoChannel.SubProgress.

Definition td_agree (g : gstate) (I : subid -> Sub.sstate) (x : subid) : Prop :=
  match td g x with
  | DNone => Sub.td (I x) = Sub.TNone
  | DIdle _ => Sub.td (I x) = Sub.TIdle
  | DSubClose _ => SubLive.woken (Sub.td (I x)) = true
  | _ => True
  end.
Definition TdLink (c : cstate) : Prop := forall x, td_agree (cg c) (ci c) x.

Lemma tdlink_init pers blk fx caps fa : TdLink (cinit pers blk fx caps fa).
Proof. intros x. reflexivity. Qed.

Lemma snap_sync_td I p xs y :
  Sub.td (apply_sync I (map (fun x => (x, Sub.LSpawn p p)) xs) y) = Sub.td (I y).
Proof. now rewrite apply_sync_proj, own_snap, SubSpawn.spawn_run_td. Qed.
Lemma replay_sync_td I x log y :
  Sub.td (apply_sync I (map (fun p => (x, Sub.LSpawn p p)) log) y) = Sub.td (I y).
Proof.
  rewrite apply_sync_proj, own_replay. destruct (Nat.eqb x y); [apply SubSpawn.spawn_run_td|reflexivity].
Qed.

Lemma tdlink_step c l c' : Inv (cg c) -> TdLink c -> cstep c l = Some c' -> TdLink c'.
Proof.
  intros (I0 & _ & _) L E. destruct c as [g I sn]. destruct l as [gl|y sl]; simpl in E.
  - destruct (guard (CS g I sn) gl) eqn:Eg; [|discriminate].
    destruct (gstep g gl) as [g'|] eqn:Es; [|discriminate]. inversion E; subst c'; clear E.
    cbn [cg ci csnap] in *. unfold sync, snap_upd. clear Eg.
    intros x0. specialize (L x0). unfold td_agree in *. cbn [cg ci csnap] in *.
    step_cases' Es; try match goal with E2 : subs _ _ = _ :: _ |- _ => rewrite <- E2 end;
      rewrite ?snap_sync_td, ?replay_sync_td; simpl; cbn [apply_sync]; try exact L.
    all: repeat match goal with
           | |- context [upd _ ?a _ ?b] =>
               destruct (Nat.eq_dec b a) as [?|?];
               [subst; rewrite ?upd_same in *|rewrite ?upd_other in * by assumption]
           end; try exact L; try exact Logic.I.
    all: repeat match goal with E0 : td _ _ = _ |- _ => rewrite E0 in L; clear E0 end;
      unfold SubSpawn.sstep1; simpl; try rewrite L; simpl; try reflexivity; try exact L.
    all: match goal with E0 : sb _ ?x = SCreate _ |- _ =>
           pose proof (o_early _ I0 x) as Oe; rewrite E0 in Oe; rewrite (Oe eq_refl) in L;
           rewrite L; reflexivity end.
  - destruct (free_sub sl) eqn:Ef; [|discriminate].
    destruct (Sub.sstep (I y) sl) as [s'|] eqn:Es; [|discriminate]. inversion E; subst c'; clear E.
    intros x0. specialize (L x0). unfold td_agree in *. cbn [cg ci csnap] in *.
    destruct (Nat.eq_dec x0 y) as [->|N]; [rewrite upd_same|now rewrite upd_other].
    destruct sl; try discriminate Ef; simpl in Es; SubInvX.sstep_cases Es; simpl; try exact L;
      destruct (td g y); try exact L; try exact Logic.I; try discriminate L; reflexivity.
Qed.

Lemma tdlink_run cls : forall c, Inv (cg c) -> TdLink c -> TdLink (crun c cls).
Proof.
  induction cls as [|l cls IH]; intros c HI L; simpl; [exact L|].
  destruct (cstep c l) as [c'|] eqn:E; [|now apply IH].
  apply IH; [eapply cstep_inv; eauto|eapply tdlink_step; eauto].
Qed.
Theorem tdlink pers blk fx caps fa cls : TdLink (crun (cinit pers blk fx caps fa) cls).
Proof. apply tdlink_run; [apply inv_init|apply tdlink_init]. Qed.

(** the labels of the composition itself: registry-internal steps, [GAllAcked] (no longer an
    environment label), and in the instances everything but the synchronised labels - the
    Senders' and teardowns' own steps and the consumers' steps *)
Definition cinternal (cl : clabel) : bool :=
  match cl with
  | CReg (GAllAcked _) => true
  | CReg l => internal l
  | CSub _ l => free_sub l
  end.
Definition CProg (c : cstate) : Prop := exists cl, cinternal cl = true /\ cstep c cl <> None.

Lemma sprog_cprog c x : SubProgress.SProg (ci c x) -> CProg c.
Proof.
  intros (l & Hf & Hn). exists (CSub x l). split.
  - destruct l; try discriminate Hf; reflexivity.
  - simpl. assert (Hf' : free_sub l = true) by (destruct l; try discriminate Hf; reflexivity).
    rewrite Hf'. destruct (Sub.sstep (ci c x) l); [discriminate|congruence].
Qed.

Theorem blocking_progress_composed pers blk fx caps fa cls :
  let c := crun (cinit pers blk fx caps fa) cls in
  writer (cg c) = None -> wpending (cg c) = [] -> busy (cg c) -> CProg c.
Proof.
  intros c NW NP Hb.
  assert (Hg : cg c = grun (ginit pers blk fx) (reg_labels (cinit pers blk fx caps fa) cls))
    by apply proj_reg.
  assert (SXi : forall x, SubProofs.SInv (ci c x) /\ SubProgress.XB (ci c x)).
  { intros x. split; [apply (comp_sub_sx pers blk fx caps fa cls x)|].
    unfold c. rewrite proj_sub. apply SubProgress.xb_reach. }
  pose proof (comp_link pers blk fx caps fa cls) as L. fold c in L.
  pose proof (tdlink pers blk fx caps fa cls) as TL. fold c in TL.
  pose proof (blocking_progress_without_pending_writer pers blk fx
                (reg_labels (cinit pers blk fx caps fa) cls)) as P.
  simpl in P. rewrite <- Hg in P. destruct (P NW NP Hb) as [(l & Hi & [g' He])|W].
  - (* an internal registry step: enabled in the composition unless it is the return of
       s.Close() and the instance's teardown is still under way *)
    destruct (guard c l) eqn:Eg.
    + exists (CReg l). split; [destruct l; try discriminate Hi; reflexivity|].
      unfold cstep. rewrite Eg, He. discriminate.
    + destruct l as [t0 k0 ms0|t0|s0 k0|s0|p0|t0|s0|x]; try discriminate Eg; try discriminate Hi. simpl in Eg.
      pose proof (TL x) as Tx. unfold td_agree in Tx.
      destruct (td (cg c) x) eqn:Ed; try discriminate Eg.
      destruct (SXi x) as [Ix Bx]. apply (sprog_cprog c x).
      apply SubProgress.teardown_progress; auto.
      intros Hd. rewrite Hd in Eg. discriminate.
  - (* a Publish waits for the Acks of p *)
    destruct W as (t & k & p & rem & Et & Ha & Hc & [g' He]).
    destruct (forallb (fun x => sender_done (ci c x) p) (csnap c p)) eqn:Ed.
    + exists (CReg (GAllAcked p)). split; [reflexivity|]. unfold cstep, guard. rewrite Ed, He. discriminate.
    + (* some Sender of p's snapshot has not returned: it, or the consumer, can step *)
      assert (Hex : exists x, In x (csnap c p) /\ sender_done (ci c x) p = false).
      { clear - Ed. induction (csnap c p) as [|x xs IH]; simpl in Ed; [discriminate|].
        destruct (sender_done (ci c x) p) eqn:Ex.
        - destruct (IH Ed) as (x' & H1 & H2). exists x'. split; [now right|exact H2].
        - exists x. split; [now left|exact Ex]. }
      destruct Hex as (x & Hx & Hnd). destruct (SXi x) as [Ix Bx]. apply (sprog_cprog c x).
      apply (SubProgress.sub_progress (ci c x) p Ix Bx).
      pose proof (k_some c L x p (k_snap c L p x Hx)) as Hn. unfold sender_done in Hnd.
      destruct (Sub.thr (ci c x) p); try reflexivity; congruence.
Qed.

(** [blocking_returns_composed] - "in blocking mode, with no writer pending or holding and
    consumers that settle what they receive, every Publish returns" - is proved up to here:
      * progress: [blocking_progress_composed] (the enabled label may be a consumer's);
      * every registry-internal step decreases RegLive.measure (RegBlock.
        blocking_internal_run_bounded), every quiet step of a woken instance decreases
        SubLive.measure (SubLive.quiet_step_decreases).
    Missing for the full statement: (1) a measure for the instances that also decreases on the
    consumer's steps and on Sender steps of a NOT woken instance - LSeeNacked re-enters the
    send loop, so it must be paid for by the consumer's Nack, i.e. the theorem needs a bound on
    the Nacks (or "every received copy is eventually Acked") as a hypothesis on the run;
    (2) the side condition "no writer pending or holding" is not stable: a GSubscribe /
    GCancel in the run re-introduces a writer, so the hypothesis has to be about the whole run
    (no environment label GSubscribe / GCancel / GClose after the Publish started). *)
Definition blocking_returns_composed_partial := blocking_progress_composed.

Print Assumptions tdlink.
Print Assumptions blocking_progress_composed.

(** C11 over the composition (the part of item (3) that is finished): in a persistent Pub/Sub a
    registered subscription has, for every message of its topic whose snapshot was taken, exactly
    one Sender in the registry AND the corresponding Sender thread in its own instance - no
    glue hypothesis any more (compare ReplayCompose.replay_exactly_once_composed, where the glue
    was a Permutation hypothesis).  What that thread does is SubOnce / SubLive. *)
Theorem replay_sender_in_instance pers blk fx caps fa cls x k p :
  let c := crun (cinit pers blk fx caps fa) cls in
  persistent (cg c) = true -> In x (subs (cg c) k) -> In p (sent (cg c)) -> ptopic (cg c) p = k ->
  nsenders (cg c) p x = 1 /\ Sub.thr (ci c x) p <> Sub.SNone
  /\ Sub.srun (Sub.sinit (caps x) fa) (sub_labels x (cinit pers blk fx caps fa) cls) = ci c x.
Proof.
  intros c Hp Hx Hs Ht.
  assert (Hg : cg c = grun (ginit pers blk fx) (reg_labels (cinit pers blk fx caps fa) cls))
    by apply proj_reg.
  assert (H1 : nsenders (cg c) p x = 1).
  { rewrite Hg in *. now apply (persistent_exactly_one pers blk fx _ x k p). }
  split; [exact H1|]. split.
  - apply (link_sender pers blk fx caps fa cls x p). apply scnt_pos_In.
    fold c. rewrite <- nsenders_scnt. lia.
  - symmetry. apply proj_sub.
Qed.
Print Assumptions replay_sender_in_instance.
