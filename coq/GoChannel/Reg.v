(** Layer B of the GoChannel model: the registry protocol
    (pubsub/gochannel/pubsub.go: Publish l.83-123, sendMessage l.137-167, Subscribe l.173-248,
    the teardown goroutine l.197-216, Close l.292-310).

    What a Sender does with ONE subscription is Layer A (GoChannel/Sub.v); here a Sender is
    only the ghost fact "a Sender for (publication p, subscription s) was spawned", and
    "all Senders of p are finished" is an environment label.

    Synchronisation objects: closedLock (mutex), subscribersLock (RWMutex with Go's writer
    preference: once a writer has announced itself new readers block), one mutex per topic,
    subscribersWg, the closing channel, the persisted log (nil after Close).
    Lock owners are tokens, because the persistent replay goroutine releases locks that the
    Subscribe call acquired.

    [fix7] selects the D7 repair (Publish skips the persisted log once Close has set it to
    nil) ; [fix7 = false] is the pinned code (assignment to entry in nil map).
    No proofs here. *)
From WM Require Import Base.Prelude.

Definition topic := nat.
Definition pubid := nat.
Definition subid := nat.

Inductive owner := OwP (t : tid) | OwS (s : subid) | OwT (s : subid).

(** client threads: one Publish or Close call each *)
Inductive tpc :=
| TIdle
| PCheck (k : topic) (ms : list pubid)        (* about to call isClosed() *)
| PRLock (k : topic) (ms : list pubid)        (* about to subscribersLock.RLock() *)
| PTLock (k : topic) (ms : list pubid)        (* about to lock the topic mutex *)
| PPersist (k : topic) (ms : list pubid)      (* holds both; about to append to the persisted log *)
| PSend (k : topic) (rem : list pubid)        (* about to sendMessage(head rem): snapshot + spawn *)
| PWait (k : topic) (p : pubid) (rem : list pubid)   (* blocking mode: waitForAckFromSubscribers *)
| PTUnlock (k : topic)
| PRUnlock
| PDone (ok : bool)
| CLock                                       (* Close: about to closedLock.Lock() *)
| CBody                                       (* holds closedLock: closed? / closed=true; close(closing) *)
| CWait                                       (* subscribersWg.Wait() *)
| CNil                                        (* persistedMessages = nil *)
| CUnlock
| CDone.

(** one Subscribe call and, in persistent mode, its replay goroutine *)
Inductive sbpc :=
| SNone
| SCheck (k : topic)          (* closedLock: closed? -> error ; wg.Add(1) *)
| SWReq (k : topic)           (* about to call subscribersLock.Lock() *)
| SWAnn (k : topic)           (* writer announced, waiting for readers to drain *)
| STLock (k : topic)
| SCreate (k : topic)         (* make subscriber; go teardown *)
| SReplay (k : topic)         (* persistent only; Subscribe has RETURNED; read log, spawn Senders *)
| SRegister (k : topic)
| STUnlock (k : topic)
| SWUnlock (k : topic)
| SDone (k : topic)
| SFail.

(** the teardown goroutine of a subscription *)
Inductive dpc :=
| DNone
| DIdle (k : topic)           (* select { ctx.Done | g.closing } *)
| DSubClose (k : topic)       (* s.Close(): Layer A *)
| DWReq (k : topic)
| DWAnn (k : topic)
| DTLock (k : topic)
| DRemove (k : topic)
| DWgDone (k : topic)
| DTUnlock (k : topic)
| DWUnlock (k : topic)
| DDone.

Record gstate := GS {
  persistent : bool; blocking : bool; fix7 : bool;
  closed : bool;                         (* g.closed *)
  gclosing : bool;                       (* g.closing is closed *)
  clock : option tid;                    (* closedLock owner (Close holds it throughout) *)
  readers : list tid;                    (* RLock holders *)
  writer : option owner;
  wpending : list owner;                 (* announced writers *)
  tlock : topic -> option owner;
  persist : option (topic -> list pubid);
  subs : topic -> list subid;
  wg : nat;
  senders : list (pubid * subid);        (* ghost: Senders spawned so far *)
  sent : list pubid;                     (* ghost: publications whose snapshot was taken *)
  acked : list pubid;                    (* ackedBySubscribers closed *)
  used : list pubid;                     (* ghost: publication ids ever passed to Publish *)
  cancelled : list subid;                (* subscription contexts that were cancelled *)
  thr : tid -> tpc;
  sb : subid -> sbpc;
  td : subid -> dpc;
  stopic : subid -> topic;
  panicked : bool;
  (* ghost state, never read by [gstep]: only there to state invariants over unboundedly many
     threads / subscriptions / publications (GoChannel/RegProofs.v) *)
  allthr : list tid;                     (* ghost: client threads ever started (GPublish / GClose) *)
  allsubs : list subid;                  (* ghost: subscription ids ever passed to GSubscribe *)
  ptopic : pubid -> topic;               (* ghost: the topic a publication id was published to *)
  pmsgs : tid -> list pubid;             (* ghost: the message list of thread t's Publish call *)
  pthr : pubid -> tid                    (* ghost: the thread whose Publish call carries publication p *)
}.

Inductive glabel :=
| GPublish (t : tid) (k : topic) (ms : list pubid)
| GClose (t : tid)
| GSubscribe (s : subid) (k : topic)
| GCancel (s : subid)
| GAllAcked (p : pubid)        (* environment (Layer A): every Sender of p has finished *)
| GT (t : tid)                 (* next step of client thread t *)
| GS_ (s : subid)              (* next step of Subscribe / replay of s *)
| GD (s : subid).              (* next step of the teardown of s *)

Definition ginit (pers blk fx : bool) : gstate :=
  GS pers blk fx false false None [] None [] (fun _ => None) (Some (fun _ => [])) (fun _ => [])
     0 [] [] [] [] [] (fun _ => TIdle) (fun _ => SNone) (fun _ => DNone) (fun _ => 0) false
     [] [] (fun _ => 0) (fun _ => []) (fun _ => 0).

Definition owner_eqb (a b : owner) : bool :=
  match a, b with
  | OwP x, OwP y | OwS x, OwS y | OwT x, OwT y => Nat.eqb x y
  | _, _ => false
  end.

Definition mem (x : nat) (l : list nat) : bool := existsb (Nat.eqb x) l.
Definition remove1 (x : nat) (l : list nat) : list nat :=
  (fix go l := match l with [] => [] | y :: l' => if Nat.eqb x y then l' else y :: go l' end) l.
Definition remove_owner (o : owner) (l : list owner) : list owner :=
  filter (fun x => negb (owner_eqb o x)) l.

(** field updates *)
Definition with_thr s t p := GS (persistent s) (blocking s) (fix7 s) (closed s) (gclosing s) (clock s) (readers s) (writer s) (wpending s) (tlock s) (persist s) (subs s) (wg s) (senders s) (sent s) (acked s) (used s) (cancelled s) (upd (thr s) t p) (sb s) (td s) (stopic s) (panicked s) (allthr s) (allsubs s) (ptopic s) (pmsgs s) (pthr s).
Definition with_sb s x p := GS (persistent s) (blocking s) (fix7 s) (closed s) (gclosing s) (clock s) (readers s) (writer s) (wpending s) (tlock s) (persist s) (subs s) (wg s) (senders s) (sent s) (acked s) (used s) (cancelled s) (thr s) (upd (sb s) x p) (td s) (stopic s) (panicked s) (allthr s) (allsubs s) (ptopic s) (pmsgs s) (pthr s).
Definition with_td s x p := GS (persistent s) (blocking s) (fix7 s) (closed s) (gclosing s) (clock s) (readers s) (writer s) (wpending s) (tlock s) (persist s) (subs s) (wg s) (senders s) (sent s) (acked s) (used s) (cancelled s) (thr s) (sb s) (upd (td s) x p) (stopic s) (panicked s) (allthr s) (allsubs s) (ptopic s) (pmsgs s) (pthr s).
Definition with_stopic s x k := GS (persistent s) (blocking s) (fix7 s) (closed s) (gclosing s) (clock s) (readers s) (writer s) (wpending s) (tlock s) (persist s) (subs s) (wg s) (senders s) (sent s) (acked s) (used s) (cancelled s) (thr s) (sb s) (td s) (upd (stopic s) x k) (panicked s) (allthr s) (allsubs s) (ptopic s) (pmsgs s) (pthr s).
Definition with_closed s c cg := GS (persistent s) (blocking s) (fix7 s) c cg (clock s) (readers s) (writer s) (wpending s) (tlock s) (persist s) (subs s) (wg s) (senders s) (sent s) (acked s) (used s) (cancelled s) (thr s) (sb s) (td s) (stopic s) (panicked s) (allthr s) (allsubs s) (ptopic s) (pmsgs s) (pthr s).
Definition with_clock s o := GS (persistent s) (blocking s) (fix7 s) (closed s) (gclosing s) o (readers s) (writer s) (wpending s) (tlock s) (persist s) (subs s) (wg s) (senders s) (sent s) (acked s) (used s) (cancelled s) (thr s) (sb s) (td s) (stopic s) (panicked s) (allthr s) (allsubs s) (ptopic s) (pmsgs s) (pthr s).
Definition with_readers s r := GS (persistent s) (blocking s) (fix7 s) (closed s) (gclosing s) (clock s) r (writer s) (wpending s) (tlock s) (persist s) (subs s) (wg s) (senders s) (sent s) (acked s) (used s) (cancelled s) (thr s) (sb s) (td s) (stopic s) (panicked s) (allthr s) (allsubs s) (ptopic s) (pmsgs s) (pthr s).
Definition with_writer s w wp := GS (persistent s) (blocking s) (fix7 s) (closed s) (gclosing s) (clock s) (readers s) w wp (tlock s) (persist s) (subs s) (wg s) (senders s) (sent s) (acked s) (used s) (cancelled s) (thr s) (sb s) (td s) (stopic s) (panicked s) (allthr s) (allsubs s) (ptopic s) (pmsgs s) (pthr s).
Definition with_tlock s k o := GS (persistent s) (blocking s) (fix7 s) (closed s) (gclosing s) (clock s) (readers s) (writer s) (wpending s) (upd (tlock s) k o) (persist s) (subs s) (wg s) (senders s) (sent s) (acked s) (used s) (cancelled s) (thr s) (sb s) (td s) (stopic s) (panicked s) (allthr s) (allsubs s) (ptopic s) (pmsgs s) (pthr s).
Definition with_persist s p := GS (persistent s) (blocking s) (fix7 s) (closed s) (gclosing s) (clock s) (readers s) (writer s) (wpending s) (tlock s) p (subs s) (wg s) (senders s) (sent s) (acked s) (used s) (cancelled s) (thr s) (sb s) (td s) (stopic s) (panicked s) (allthr s) (allsubs s) (ptopic s) (pmsgs s) (pthr s).
Definition with_subs s k l := GS (persistent s) (blocking s) (fix7 s) (closed s) (gclosing s) (clock s) (readers s) (writer s) (wpending s) (tlock s) (persist s) (upd (subs s) k l) (wg s) (senders s) (sent s) (acked s) (used s) (cancelled s) (thr s) (sb s) (td s) (stopic s) (panicked s) (allthr s) (allsubs s) (ptopic s) (pmsgs s) (pthr s).
Definition with_wg s n := GS (persistent s) (blocking s) (fix7 s) (closed s) (gclosing s) (clock s) (readers s) (writer s) (wpending s) (tlock s) (persist s) (subs s) n (senders s) (sent s) (acked s) (used s) (cancelled s) (thr s) (sb s) (td s) (stopic s) (panicked s) (allthr s) (allsubs s) (ptopic s) (pmsgs s) (pthr s).
Definition with_senders s l sn := GS (persistent s) (blocking s) (fix7 s) (closed s) (gclosing s) (clock s) (readers s) (writer s) (wpending s) (tlock s) (persist s) (subs s) (wg s) l sn (acked s) (used s) (cancelled s) (thr s) (sb s) (td s) (stopic s) (panicked s) (allthr s) (allsubs s) (ptopic s) (pmsgs s) (pthr s).
Definition with_acked s l := GS (persistent s) (blocking s) (fix7 s) (closed s) (gclosing s) (clock s) (readers s) (writer s) (wpending s) (tlock s) (persist s) (subs s) (wg s) (senders s) (sent s) l (used s) (cancelled s) (thr s) (sb s) (td s) (stopic s) (panicked s) (allthr s) (allsubs s) (ptopic s) (pmsgs s) (pthr s).
Definition with_used s l := GS (persistent s) (blocking s) (fix7 s) (closed s) (gclosing s) (clock s) (readers s) (writer s) (wpending s) (tlock s) (persist s) (subs s) (wg s) (senders s) (sent s) (acked s) l (cancelled s) (thr s) (sb s) (td s) (stopic s) (panicked s) (allthr s) (allsubs s) (ptopic s) (pmsgs s) (pthr s).
Definition with_cancelled s l := GS (persistent s) (blocking s) (fix7 s) (closed s) (gclosing s) (clock s) (readers s) (writer s) (wpending s) (tlock s) (persist s) (subs s) (wg s) (senders s) (sent s) (acked s) (used s) l (thr s) (sb s) (td s) (stopic s) (panicked s) (allthr s) (allsubs s) (ptopic s) (pmsgs s) (pthr s).
Definition with_panic s := GS (persistent s) (blocking s) (fix7 s) (closed s) (gclosing s) (clock s) (readers s) (writer s) (wpending s) (tlock s) (persist s) (subs s) (wg s) (senders s) (sent s) (acked s) (used s) (cancelled s) (thr s) (sb s) (td s) (stopic s) true (allthr s) (allsubs s) (ptopic s) (pmsgs s) (pthr s).
Definition with_allthr s l := GS (persistent s) (blocking s) (fix7 s) (closed s) (gclosing s) (clock s) (readers s) (writer s) (wpending s) (tlock s) (persist s) (subs s) (wg s) (senders s) (sent s) (acked s) (used s) (cancelled s) (thr s) (sb s) (td s) (stopic s) (panicked s) l (allsubs s) (ptopic s) (pmsgs s) (pthr s).
Definition with_allsubs s l := GS (persistent s) (blocking s) (fix7 s) (closed s) (gclosing s) (clock s) (readers s) (writer s) (wpending s) (tlock s) (persist s) (subs s) (wg s) (senders s) (sent s) (acked s) (used s) (cancelled s) (thr s) (sb s) (td s) (stopic s) (panicked s) (allthr s) l (ptopic s) (pmsgs s) (pthr s).
Definition with_pub s (pt : pubid -> topic) (pm : tid -> list pubid) (po : pubid -> tid) := GS (persistent s) (blocking s) (fix7 s) (closed s) (gclosing s) (clock s) (readers s) (writer s) (wpending s) (tlock s) (persist s) (subs s) (wg s) (senders s) (sent s) (acked s) (used s) (cancelled s) (thr s) (sb s) (td s) (stopic s) (panicked s) (allthr s) (allsubs s) pt pm po.

(** RWMutex rules *)
Definition can_rlock (s : gstate) : bool :=
  match writer s, wpending s with None, [] => true | _, _ => false end.
Definition can_wlock (s : gstate) (o : owner) : bool :=
  match writer s, readers s with None, [] => existsb (owner_eqb o) (wpending s) | _, _ => false end.

Definition disjointb (a b : list nat) : bool := forallb (fun x => negb (mem x b)) a.
Fixpoint nodupb (l : list nat) : bool :=
  match l with [] => true | x :: l' => negb (mem x l') && nodupb l' end.

Definition persist_get (s : gstate) (k : topic) : list pubid :=
  match persist s with Some f => f k | None => [] end.

(** ghost bookkeeping of a Publish call: thread started, topic of its messages, its message list *)
Definition ghost_publish (s : gstate) (t : tid) (k : topic) (ms : list pubid) : gstate :=
  with_pub (with_allthr s (t :: allthr s))
           (fun p => if mem p ms then k else ptopic s p) (upd (pmsgs s) t ms)
           (fun p => if mem p ms then t else pthr s p).

Definition gstep (s : gstate) (l : glabel) : option gstate :=
  match l with
  | GPublish t k ms =>
      match thr s t with
      | TIdle => if nodupb ms && disjointb ms (used s)
                 then Some (with_thr (with_used (ghost_publish s t k ms) (ms ++ used s)) t (PCheck k ms))
                 else None
      | _ => None
      end
  | GClose t =>
      match thr s t with
      | TIdle => Some (with_thr (with_allthr s (t :: allthr s)) t CLock)
      | _ => None
      end
  | GSubscribe x k =>
      match sb s x, td s x with
      | SNone, DNone => Some (with_sb (with_stopic (with_allsubs s (x :: allsubs s)) x k) x (SCheck k))
      | _, _ => None
      end
  | GCancel x =>
      match sb s x with
      | SNone => None
      | _ => Some (with_cancelled s (x :: cancelled s))
      end
  | GAllAcked p =>
      if mem p (sent s) then Some (with_acked s (p :: acked s)) else None
  | GT t =>
      match thr s t with
      | PCheck k ms =>                                  (* isClosed(): needs closedLock for a moment *)
          match clock s with
          | Some _ => None
          | None => if closed s then Some (with_thr s t (PDone false))
                    else Some (with_thr s t (PRLock k ms))
          end
      | PRLock k ms =>
          if can_rlock s then Some (with_thr (with_readers s (t :: readers s)) t (PTLock k ms)) else None
      | PTLock k ms =>
          match tlock s k with
          | Some _ => None
          | None => Some (with_thr (with_tlock s k (Some (OwP t))) t
                            (if persistent s then PPersist k ms else PSend k ms))
          end
      | PPersist k ms =>
          match persist s with
          | Some f => Some (with_thr (with_persist s (Some (upd f k (f k ++ ms)))) t (PSend k ms))
          | None => if fix7 s then Some (with_thr s t (PSend k ms))           (* D7 repair: skip *)
                    else Some (with_thr (with_panic s) t (PTUnlock k))        (* nil map write panics;
                                                                                 deferred unlocks run *)
          end
      | PSend k [] => Some (with_thr s t (PTUnlock k))
      | PSend k (p :: rem) =>                            (* sendMessage: snapshot + spawn Senders *)
          let snap := subs s k in
          let s1 := with_senders s (map (fun x => (p, x)) snap ++ senders s) (p :: sent s) in
          let s2 := match snap with [] => with_acked s1 (p :: acked s1) | _ => s1 end in
          Some (with_thr s2 t (if blocking s then PWait k p rem else PSend k rem))
      | PWait k p rem =>
          if mem p (acked s) || gclosing s then Some (with_thr s t (PSend k rem)) else None
      | PTUnlock k => Some (with_thr (with_tlock s k None) t PRUnlock)
      | PRUnlock => Some (with_thr (with_readers s (remove1 t (readers s))) t
                            (PDone (negb (panicked s))))
      | CLock =>
          match clock s with
          | Some _ => None
          | None => Some (with_thr (with_clock s (Some t)) t CBody)
          end
      | CBody =>
          if closed s then Some (with_thr s t CUnlock)
          else Some (with_thr (if gclosing s then with_panic s else with_closed s true true) t CWait)
      | CWait => match wg s with O => Some (with_thr s t CNil) | S _ => None end
      | CNil => Some (with_thr (with_persist s None) t CUnlock)
      | CUnlock => Some (with_thr (with_clock s None) t CDone)
      | _ => None
      end
  | GS_ x =>
      match sb s x with
      | SCheck k =>
          match clock s with
          | Some _ => None
          | None => if closed s then Some (with_sb s x SFail)
                    else Some (with_sb (with_wg s (S (wg s))) x (SWReq k))
          end
      | SWReq k => Some (with_sb (with_writer s (writer s) (OwS x :: wpending s)) x (SWAnn k))
      | SWAnn k =>
          if can_wlock s (OwS x)
          then Some (with_sb (with_writer s (Some (OwS x)) (remove_owner (OwS x) (wpending s))) x (STLock k))
          else None
      | STLock k =>
          match tlock s k with
          | Some _ => None
          | None => Some (with_sb (with_tlock s k (Some (OwS x))) x (SCreate k))
          end
      | SCreate k =>                                     (* s created; go teardown *)
          Some (with_sb (with_td s x (DIdle k)) x (if persistent s then SReplay k else SRegister k))
      | SReplay k =>                                     (* replay goroutine: one Sender per persisted message *)
          let log := persist_get s k in
          Some (with_sb (with_senders s (map (fun p => (p, x)) log ++ senders s) (sent s)) x (SRegister k))
      | SRegister k => Some (with_sb (with_subs s k (subs s k ++ [x])) x (STUnlock k))
      | STUnlock k => Some (with_sb (with_tlock s k None) x (SWUnlock k))
      | SWUnlock k => Some (with_sb (with_writer s None (wpending s)) x (SDone k))
      | _ => None
      end
  | GD x =>
      match td s x with
      | DIdle k => if mem x (cancelled s) || gclosing s then Some (with_td s x (DSubClose k)) else None
      | DSubClose k => Some (with_td s x (DWReq k))
      | DWReq k => Some (with_td (with_writer s (writer s) (OwT x :: wpending s)) x (DWAnn k))
      | DWAnn k =>
          if can_wlock s (OwT x)
          then Some (with_td (with_writer s (Some (OwT x)) (remove_owner (OwT x) (wpending s))) x (DTLock k))
          else None
      | DTLock k =>
          match tlock s k with
          | Some _ => None
          | None => Some (with_td (with_tlock s k (Some (OwT x))) x (DRemove k))
          end
      | DRemove k =>
          if mem x (subs s k) then Some (with_td (with_subs s k (remove1 x (subs s k))) x (DWgDone k))
          else Some (with_td (with_panic s) x (DTUnlock k))       (* "cannot remove subscriber, not found" *)
      | DWgDone k =>
          match wg s with
          | O => Some (with_td (with_panic s) x (DTUnlock k))     (* negative WaitGroup counter *)
          | S n => Some (with_td (with_wg s n) x (DTUnlock k))
          end
      | DTUnlock k => Some (with_td (with_tlock s k None) x (DWUnlock k))
      | DWUnlock k => Some (with_td (with_writer s None (wpending s)) x DDone)
      | _ => None
      end
  end.

Fixpoint grun (s : gstate) (ls : list glabel) : gstate :=
  match ls with
  | [] => s
  | l :: ls' => match gstep s l with Some s' => grun s' ls' | None => grun s ls' end
  end.

Fixpoint greplay (s : gstate) (ls : list glabel) : option gstate :=
  match ls with
  | [] => Some s
  | l :: ls' => match gstep s l with Some s' => greplay s' ls' | None => None end
  end.

(** number of Senders spawned for the pair (p, x) *)
Definition nsenders (s : gstate) (p : pubid) (x : subid) : nat :=
  length (filter (fun q => Nat.eqb (fst q) p && Nat.eqb (snd q) x) (senders s)).
