(** "Every Close call returns" in the composed system (GoChannel/Compose.v), progress half:

      reg_prog_cprog            : an enabled registry-internal step is enabled in the composition,
                                  unless it is the return of s.Close() - then the instance's
                                  teardown (or the Sender holding its lock, or its consumer) can step.
      close_never_stuck_composed: ANY mode (blocking too), every reachable composed state: while
                                  some Close call has started and not returned, a step of the
                                  composition is enabled (registry-internal, a teardown's or
                                  Sender's own step, or a consumer step).
      closing_progress_composed : the same for everything busy once g.closing is closed.
    Termination half: registry-internal steps decrease RegLive.measure in every mode
    (RegBlock.blocking_internal_run_bounded); a woken instance's quiet steps decrease
    SubLive.measure (C07_teardown_terminates) - each teardown that Close waits for terminates
    WITHOUT the consumer.  The composition of the two measures into one is
    ComposeMeasure.v. *)
From WM Require Import Base.Prelude GoChannel.Reg GoChannel.RegLocks GoChannel.RegInv
                       GoChannel.RegSend GoChannel.RegLive GoChannel.RegClose
                       GoChannel.Compose GoChannel.ComposeLive.
From WM Require GoChannel.Sub GoChannel.SubProofs GoChannel.SubProgress.

Lemma reg_prog_cprog pers blk fx caps fa cls :
  let c := crun (cinit pers blk fx caps fa) cls in Prog (cg c) -> CProg c.
Proof.
  intros c (l & Hi & [g' He]).
  pose proof (tdlink pers blk fx caps fa cls) as TL. fold c in TL.
  destruct (guard c l) eqn:Eg.
  - exists (CReg l). split; [destruct l; try discriminate Hi; reflexivity|].
    unfold cstep. rewrite Eg, He. discriminate.
  - destruct l as [t0 k0 ms0|t0|s0 k0|s0|p0|t0|s0|x]; try discriminate Eg; try discriminate Hi.
    simpl in Eg. pose proof (TL x) as Tx. unfold td_agree in Tx.
    destruct (td (cg c) x) eqn:Ed; try discriminate Eg.
    apply (sprog_cprog c x). apply SubProgress.teardown_progress; auto.
    + apply (comp_sub_sx pers blk fx caps fa cls x).
    + unfold c. rewrite proj_sub. apply SubProgress.xb_reach.
    + intros Hd. rewrite Hd in Eg. discriminate.
Qed.

Theorem close_never_stuck_composed pers blk fx caps fa cls t :
  let c := crun (cinit pers blk fx caps fa) cls in
  tp_closing (thr (cg c) t) = true -> CProg c.
Proof.
  intros c Ht. apply reg_prog_cprog. unfold c in *. rewrite proj_reg in *.
  now apply (close_never_stuck pers blk fx _ t).
Qed.
Theorem closing_progress_composed pers blk fx caps fa cls :
  let c := crun (cinit pers blk fx caps fa) cls in
  gclosing (cg c) = true -> busy (cg c) -> CProg c.
Proof.
  intros c Hg Hb. apply reg_prog_cprog. unfold c in *. rewrite proj_reg in *.
  now apply closing_progress.
Qed.

Print Assumptions close_never_stuck_composed.
Print Assumptions closing_progress_composed.
