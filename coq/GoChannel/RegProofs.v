(** GoChannel registry protocol (GoChannel/Reg.v): machine-checked results, for ALL label lists
    [ls] (= all schedules; any number of threads, subscriptions, topics, messages) and
    [s := grun (ginit pers blk fx) ls].  The proofs live in
      RegLocks.v (R0)   RegInv.v (R1, R5, R8 invariants)   RegSend.v (R2-R8)   RegLive.v (R9, R10).

    Final theorems (name : meaning)
    R0  reg_locks              : [Inv0 s] - closedLock / RWMutex (writer, readers, announced
                                 writers) / topic mutexes are held exactly by the threads whose
                                 program counters say so; one writer; writer excludes readers;
                                 [closed s = gclosing s] (close(g.closing) runs at most once).
    R1  reg_no_panic           : with the D7 repair ([fx = true]) [panicked s = false]
                                 (no "cannot remove subscriber", no negative WaitGroup, no
                                 double close, no nil-map write).  Refutation for [fx = false]:
                                 RegWitness.d7_panics.
        remove_finds, wgdone_pos : the two facts behind it, on any state satisfying [Inv1].
    R2  sender_unique          : [nsenders s p x <= 1].
        senders_monotone       : [senders] only grows along any run.
    R3  sender_topic           : [In (p, x) (senders s) -> ptopic s p = stopic s x].
    R4  snapshot_complete      : the step [PSend k (p :: rem)] of thread t gives every x in
                                 [subs s k] exactly one Sender for p, changes no other pair, and
                                 puts p into [sent].
    R5  registered_window      : [In x (subs s k)] iff k is x's topic, the Subscribe / replay
                                 of x is past addSubscriber ([sb_reg]) and the teardown of x has
                                 not executed removeSubscriber ([td_pre]).
        subs_nodup             : [NoDup (subs s k)].
    R6  persistent_exactly_one : persistent mode: a registered subscription has exactly one
                                 Sender for every message of its topic whose snapshot was taken.
    R7  blocking_waits         : blocking mode, [fx = true]: a Publish at [PDone true] has, for
                                 each of its messages p, [mem p (acked s) = true \/ gclosing s = true].
        blocking_waits_pc      : the same for a call under way (what it no longer waits for).
    R8  after_close            : a Close thread at CDone: [closed], [wg = 0], all [subs s k = []],
                                 every teardown is not started or past wg.Done().
        closed_mono, after_close_publish, after_close_subscribe :
                                 [closed] is never reset; then PCheck steps to [PDone false]
                                 and SCheck to [SFail].
    R9  reg_progress           : NON-blocking mode: if something is busy (a started call has not
                                 returned, a Subscribe / replay is mid-way, a woken teardown is not
                                 finished) some internal label of a started thread / subscription
                                 is enabled.  False in blocking mode: RegWitness.d9_deadlock.
    R10 measure_step           : every internal step strictly decreases [measure].
        reg_terminates         : non-blocking: every run of internal steps from a reachable state
                                 is at most [measure s] long and, when stuck, nothing is busy.
    All invariants together: reg_inv ([Inv0 /\ Inv1 /\ Inv2]), reg_inv7, reg_invl. *)
From WM Require Import Base.Prelude GoChannel.Reg GoChannel.RegWitness GoChannel.RegLocks
                       GoChannel.RegInv GoChannel.RegSend GoChannel.RegLive.

(** R8 cannot say "every started teardown is DDone" when Close returns: wg.Done() comes before
    the teardown goroutine's deferred unlocks, so Close may return while a teardown still holds
    the topic lock and the write lock (here: at DTUnlock).  Same in the Go code. *)
Example close_returns_before_teardown_unlocks :
  let s := grun (ginit false false true)
             (subscribe_all 0 0 9 ++ [GClose 1; GT 1; GT 1] ++ repeat (GD 0) 7 ++ repeat (GT 1) 3) in
  thr s 1 = CDone /\ td s 0 = DTUnlock 0 /\ tlock s 0 = Some (OwT 0) /\ writer s = Some (OwT 0).
Proof. vm_compute. repeat split; reflexivity. Qed.

Print Assumptions reg_locks.
Print Assumptions reg_no_panic.
Print Assumptions remove_finds.
Print Assumptions wgdone_pos.
Print Assumptions sender_unique.
Print Assumptions senders_monotone.
Print Assumptions sender_topic.
Print Assumptions snapshot_complete.
Print Assumptions registered_window.
Print Assumptions subs_nodup.
Print Assumptions persistent_exactly_one.
Print Assumptions blocking_waits.
Print Assumptions blocking_waits_pc.
Print Assumptions after_close.
Print Assumptions closed_mono.
Print Assumptions after_close_publish.
Print Assumptions after_close_subscribe.
Print Assumptions reg_progress.
Print Assumptions measure_step.
Print Assumptions reg_terminates.
Print Assumptions reg_inv.
