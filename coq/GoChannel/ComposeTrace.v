(** The composed system (GoChannel/Compose.v), trace level.

      new_senders_step        : a registry step adds exactly [new_senders g l] to [senders].
      spawn_count             : along every composed run, the number of [LSpawn] labels for
                                publication p that subscription x's instance has seen equals the
                                number of Senders (p, x) the registry has spawned.
      spawn_pubs_nodup        : hence [NoDup (spawn_pubs (sub_labels x ...))] - the hypothesis of
                                MonitorSound.no_dup_sound / SubOnce.* is a THEOREM of the
                                composition (it was a glue hypothesis, ReplayCompose's Permutation).
      no_dup_acceptor_sound_composed : Monitor.mon_no_dup accepts the API history of every
                                subscription of every composed run (both loop variants).
      one_in_flight_acceptor_sound_composed : Monitor.mon_one_in_flight likewise (repaired loop).
      replay_exactly_once_in_composition : persistent Pub/Sub, x registered, p of x's topic with
                                its snapshot taken, the consumer of x never Nacks, x not closing,
                                the Sender of p in x returned  ==>  the history of x contains
                                exactly one receipt of p ([Monitor.count_recv ... = 1], the test
                                of Monitor.mon_persistent_replay); at most one in any case. *)
From WM Require Import Base.Prelude GoChannel.Reg GoChannel.RegLocks GoChannel.RegInv
                       GoChannel.RegSend GoChannel.Compose.
From WM Require Message.Model GoChannel.Sub GoChannel.SubProofs GoChannel.SubInvX GoChannel.SubLive
                GoChannel.SubSpawn GoChannel.SubOnce GoChannel.Monitor GoChannel.MonitorSound.

Definition new_senders (g : gstate) (l : glabel) : list (pubid * subid) :=
  match l with
  | GT t => match thr g t with
            | PSend k (p :: _) => map (fun x => (p, x)) (subs g k)
            | _ => []
            end
  | GS_ x => match sb g x with
             | SReplay k => map (fun p => (p, x)) (persist_get g k)
             | _ => []
             end
  | _ => []
  end.

Lemma new_senders_step g l g' : gstep g l = Some g' -> senders g' = new_senders g l ++ senders g.
Proof.
  intros H. unfold new_senders. step_cases' H; simpl; try reflexivity.
  all: match goal with E2 : subs _ _ = _ :: _ |- _ => now rewrite E2 end.
Qed.

Lemma spawn_pubs_spawns ps : MonitorSound.spawn_pubs (SubSpawn.spawns ps) = ps.
Proof. induction ps as [|p ps IH]; simpl; [reflexivity|]. now rewrite IH. Qed.
Lemma spawn_pubs_app a b :
  MonitorSound.spawn_pubs (a ++ b) = MonitorSound.spawn_pubs a ++ MonitorSound.spawn_pubs b.
Proof. unfold MonitorSound.spawn_pubs. now rewrite flat_map_app. Qed.
Lemma cnt_const p q (l : list nat) : cnt p (map (fun _ : nat => q) l) = if Nat.eqb p q then length l else 0.
Proof. induction l as [|a l IH]; simpl; [now destruct (Nat.eqb p q)|]. rewrite IH. now destruct (Nat.eqb p q). Qed.
Lemma cnt_filter_len x (xs : list nat) : length (filter (fun y => Nat.eqb y x) xs) = cnt x xs.
Proof.
  induction xs as [|y xs IH]; simpl; [reflexivity|]. rewrite (Nat.eqb_sym x y).
  destruct (Nat.eqb y x); simpl; now rewrite IH.
Qed.

(** the LSpawn labels a registry step sends to instance x are its new Senders for x *)
Lemma sync_spawn_count g l x p :
  cnt p (MonitorSound.spawn_pubs (own x (sync g l))) = scnt p x (new_senders g l).
Proof.
  unfold sync, new_senders. destruct l as [t k ms|t|s k|s|q|t|s|s]; try reflexivity.
  - destruct (thr g t) as [| | | | |k rem| | | | | | | | | |]; try reflexivity.
    destruct rem as [|q rem]; [reflexivity|].
    rewrite own_snap, spawn_pubs_spawns, cnt_const, cnt_filter_len, scnt_map_sub. reflexivity.
  - destruct (sb g s) as [| | | | | |k| | | | |]; try reflexivity.
    + unfold own. simpl. destruct (Nat.eqb s x); reflexivity.
    + rewrite own_replay, scnt_map_pub, (Nat.eqb_sym x s).
      destruct (Nat.eqb s x); [now rewrite spawn_pubs_spawns|reflexivity].
  - destruct (td g s); try reflexivity. unfold own. simpl. destruct (Nat.eqb s x); reflexivity.
Qed.

Lemma spawn_count x p cls : forall c,
  cnt p (MonitorSound.spawn_pubs (sub_labels x c cls)) + scnt p x (senders (cg c))
  = scnt p x (senders (cg (crun c cls))).
Proof.
  induction cls as [|l cls IH]; intros c; simpl; [reflexivity|].
  destruct (cstep c l) as [c'|] eqn:E; [|apply IH].
  rewrite spawn_pubs_app, cnt_app, <- IH. destruct l as [gl|y sl]; simpl in E.
  - destruct (guard c gl); [|discriminate]. destruct (gstep (cg c) gl) as [g'|] eqn:Es; [|discriminate].
    inversion E; subst c'; clear E. simpl. rewrite (new_senders_step _ _ _ Es), scnt_app, sync_spawn_count. lia.
  - destruct (free_sub sl) eqn:Ef; [|discriminate].
    destruct (Sub.sstep (ci c y) sl); [|discriminate]. inversion E; subst c'; clear E. simpl.
    destruct (Nat.eqb y x); [|simpl; lia]. destruct sl; try discriminate Ef; simpl; lia.
Qed.

Section Reach.
Variables (pers blk fx : bool) (caps : subid -> nat) (fa : bool) (cls : list clabel) (x : subid).
Let c := crun (cinit pers blk fx caps fa) cls.
Let ls := sub_labels x (cinit pers blk fx caps fa) cls.

Theorem spawn_pubs_nodup : NoDup (MonitorSound.spawn_pubs ls).
Proof.
  apply cnt_le1_NoDup. intros p.
  pose proof (spawn_count x p cls (cinit pers blk fx caps fa)) as H. simpl in H.
  unfold scnt at 1 in H. simpl in H. fold ls in H. rewrite Nat.add_0_r in H. rewrite H.
  rewrite proj_reg. apply (sender_unique pers blk fx _ p x).
Qed.

Lemma inst_is_run : ci c x = Sub.srun (Sub.sinit (caps x) fa) ls.
Proof. apply proj_sub. Qed.

(** the C04 duplicate acceptor and the C05 one-in-flight acceptor accept the history of every
    subscription of every composed run *)
Theorem no_dup_acceptor_sound_composed :
  Monitor.mon_no_dup (MonitorSound.trace x (Sub.sinit (caps x) fa) ls) = [].
Proof. apply MonitorSound.no_dup_sound. apply spawn_pubs_nodup. Qed.

(** a label list of the composition in which the consumer of x never Nacks *)
Definition consumer_acks : bool :=
  forallb (fun cl => match cl with
                     | CSub y (Sub.LNack _) => negb (Nat.eqb y x)
                     | _ => true
                     end) cls.
Lemma sync_no_nack g gl : SubOnce.no_nack (own x (sync g gl)) = true.
Proof.
  unfold sync. destruct gl as [t k ms|t|s k|s|q|t|s|s]; try reflexivity.
  - destruct (thr g t) as [| | | | |k rem| | | | | | | | | |]; try reflexivity.
    destruct rem as [|q rem]; [reflexivity|]. rewrite own_snap. unfold SubOnce.no_nack, SubSpawn.spawns.
    rewrite forallb_forall. intros l Hl. apply in_map_iff in Hl as (q' & <- & _). reflexivity.
  - destruct (sb g s) as [| | | | | |k| | | | |]; try reflexivity.
    + unfold own. simpl. destruct (Nat.eqb s x); reflexivity.
    + rewrite own_replay. destruct (Nat.eqb s x); [|reflexivity]. unfold SubOnce.no_nack, SubSpawn.spawns.
      rewrite forallb_forall. intros l Hl. apply in_map_iff in Hl as (q' & <- & _). reflexivity.
  - destruct (td g s); try reflexivity. unfold own. simpl. destruct (Nat.eqb s x); reflexivity.
Qed.
Lemma no_nack_app a b : SubOnce.no_nack (a ++ b) = SubOnce.no_nack a && SubOnce.no_nack b.
Proof. unfold SubOnce.no_nack. apply forallb_app. Qed.
End Reach.

Lemma acks_no_nack x cls : forall c,
  forallb (fun cl => match cl with
                     | CSub y (Sub.LNack _) => negb (Nat.eqb y x)
                     | _ => true
                     end) cls = true ->
  SubOnce.no_nack (sub_labels x c cls) = true.
Proof.
  induction cls as [|l cls IH]; intros c H; simpl in *; [reflexivity|].
  apply andb_true_iff in H as [Hl H]. destruct (cstep c l) as [c'|]; [|now apply IH].
  rewrite no_nack_app, (IH c' H), andb_true_r. destruct l as [gl|y sl]; [apply sync_no_nack|].
  destruct (Nat.eqb y x) eqn:E; [|reflexivity]. destruct sl; try reflexivity.
  simpl in Hl. discriminate Hl.
Qed.

(** thread ids are publication ids in every instance *)
Lemma pub_step s l s' t q : Sub.sstep s l = Some s' ->
  MonitorSound.spc_pub (Sub.thr s' t) = Some q ->
  MonitorSound.spc_pub (Sub.thr s t) = Some q \/ l = Sub.LSpawn t q.
Proof.
  intros E.
  destruct l as [t0 p|  | | |t0|t0|t0|t0|t0|t0| |c|c]; simpl in E; SubInvX.sstep_cases E; simpl; auto;
    (destruct (Nat.eq_dec t t0) as [->|N]; [rewrite upd_same|rewrite upd_other by exact N; auto]);
    simpl; try (intros [= <-]; auto; fail);
    match goal with H : Sub.thr _ _ = _ |- _ => rewrite H; simpl; auto end.
Qed.
Definition diag (ls : list Sub.label) : Prop := forall t q, In (Sub.LSpawn t q) ls -> t = q.
Lemma diag_run ls : forall s, (forall t q, MonitorSound.spc_pub (Sub.thr s t) = Some q -> q = t) ->
  diag ls -> forall t q, MonitorSound.spc_pub (Sub.thr (Sub.srun s ls) t) = Some q -> q = t.
Proof.
  induction ls as [|l ls IH]; intros s Hs Hd; simpl; [exact Hs|].
  assert (Hd' : diag ls) by (intros t q Hin; apply Hd; now right).
  destruct (Sub.sstep s l) as [s'|] eqn:E; [|now apply IH].
  apply IH; [|exact Hd']. intros t q Hq. destruct (pub_step s l s' t q E Hq) as [H| ->]; [now apply Hs|].
  symmetry. apply Hd. now left.
Qed.
Lemma sync_diag g gl x : diag (own x (sync g gl)).
Proof.
  unfold sync. intros t q. destruct gl as [t0 k ms|t0|s k|s|q0|t0|s|s]; simpl; try tauto.
  - destruct (thr g t0) as [| | | | |k rem| | | | | | | | | |]; simpl; try tauto.
    destruct rem as [|q1 rem]; simpl; [tauto|]. rewrite own_snap. unfold SubSpawn.spawns.
    intros Hin. apply in_map_iff in Hin as (q' & [= <- <-] & _). reflexivity.
  - destruct (sb g s) as [| | | | | |k| | | | |]; simpl; try tauto.
    + unfold own. simpl. destruct (Nat.eqb s x); simpl; intuition discriminate.
    + rewrite own_replay. destruct (Nat.eqb s x); [|simpl; tauto]. unfold SubSpawn.spawns.
      intros Hin. apply in_map_iff in Hin as (q' & [= <- <-] & _). reflexivity.
  - destruct (td g s); simpl; try tauto. unfold own. simpl. destruct (Nat.eqb s x); simpl; intuition discriminate.
Qed.
Lemma sub_labels_diag x cls : forall c, diag (sub_labels x c cls).
Proof.
  induction cls as [|l cls IH]; intros c t q; simpl; [tauto|].
  destruct (cstep c l) as [c'|] eqn:E; [|apply IH]. intros Hin. apply in_app_or in Hin as [Hin|Hin]; [|eapply IH; eauto].
  destruct l as [gl|y sl]; [eapply sync_diag; eauto|]. simpl in E.
  destruct (free_sub sl) eqn:Ef; [|discriminate]. destruct (Nat.eqb y x); [|destruct Hin].
  destruct Hin as [->|[]]. discriminate Ef.
Qed.

(** C11 in the composition, in the acceptor's vocabulary, no glue hypothesis *)
Theorem replay_exactly_once_in_composition pers blk fx caps fa cls x k p :
  let c := crun (cinit pers blk fx caps fa) cls in
  let h := MonitorSound.trace x (Sub.sinit (caps x) fa) (sub_labels x (cinit pers blk fx caps fa) cls) in
  consumer_acks cls x = true ->
  Monitor.count_recv h x p <= 1
  /\ (persistent (cg c) = true -> In x (subs (cg c) k) -> In p (sent (cg c)) -> ptopic (cg c) p = k ->
      nsenders (cg c) p x = 1 /\ Sub.thr (ci c x) p <> Sub.SNone
      /\ (Sub.closing (ci c x) = false -> (exists q, Sub.thr (ci c x) p = Sub.SDone q) ->
          Monitor.count_recv h x p = 1)).
Proof.
  intros c h Hacks.
  pose proof (spawn_pubs_nodup pers blk fx caps fa cls x) as Hnd.
  pose proof (acks_no_nack x cls (cinit pers blk fx caps fa) Hacks) as Hnn.
  split; [now apply SubOnce.acking_at_most_once|].
  intros Hp Hx Hs Ht.
  assert (Hg : cg c = grun (ginit pers blk fx) (reg_labels (cinit pers blk fx caps fa) cls)) by apply proj_reg.
  assert (H1 : nsenders (cg c) p x = 1).
  { rewrite Hg in *. now apply (persistent_exactly_one pers blk fx _ x k p). }
  split; [exact H1|]. split.
  - apply (link_sender pers blk fx caps fa cls x p). apply scnt_pos_In. fold c.
    rewrite <- nsenders_scnt. lia.
  - intros Hc [q Hq]. pose proof (inst_is_run pers blk fx caps fa cls x) as Hr. fold c in Hr.
    rewrite Hr in Hc, Hq.
    destruct (SubOnce.acking_exactly_once x (caps x) fa _ Hnn Hnd p q Hc Hq) as [Hcount _].
    (* thread id = publication id in the composition *)
    assert (q = p); [|subst q; exact Hcount].
    apply (diag_run (sub_labels x (cinit pers blk fx caps fa) cls) (Sub.sinit (caps x) fa));
      [intros t0 q0; simpl; discriminate|apply sub_labels_diag|now rewrite Hq].
Qed.

Theorem one_in_flight_acceptor_sound_composed pers blk fx caps cls x :
  Monitor.mon_one_in_flight
    (MonitorSound.trace x (Sub.sinit (caps x) true) (sub_labels x (cinit pers blk fx caps true) cls)) = [].
Proof. apply MonitorSound.one_in_flight_sound. Qed.

Print Assumptions spawn_pubs_nodup.
Print Assumptions no_dup_acceptor_sound_composed.
Print Assumptions replay_exactly_once_in_composition.
