(** API-level acceptors for GoChannel histories (C04, C05, C11): executable oracles applied to
    what the implementation did, independent of the models.  An API history is the list of
    harness stamps in their total order. *)
From WM Require Import Base.Prelude.

Inductive aev :=
| APubCall (t k : nat) (ms : list nat)
| APubRet (t : nat) (ok : bool)
| ASubCall (x k : nat)
| ASubRet (x : nat) (ok : bool)
| ARecv (x p c : nat) (content_ok ctx_live ctx_derived : bool)
| AAck (x c : nat)
| ANack (x c : nat)
| ALeave (x c : nat)
| ACtxDone (x c : nat) (done : bool)
| ACancel (x : nat)
| AChanClosed (x : nat)
| ACloseCall
| ACloseRet
| ADriverClose
| AQuiescent.

Definition memb (x : nat) (l : list nat) : bool := existsb (Nat.eqb x) l.
Definition rem (x : nat) (l : list nat) : list nat := filter (fun y => negb (Nat.eqb x y)) l.

(** violation codes *)
Definition V_TWO_IN_FLIGHT := 1.          (* a message was received while an earlier one is unsettled *)
Definition V_TWO_IN_FLIGHT_CLOSING := 2.  (* ... while the subscription was being cancelled / closed (D13) *)
Definition V_DUP_WITHOUT_NACK := 3.       (* redelivery although the previous delivery was not Nacked *)
Definition V_DUP_AFTER_ACK := 4.
Definition V_CONTENT := 5.                (* delivered copy differs from the published message *)
Definition V_CTX := 6.                    (* context not live / not derived / not cancelled after Ack *)
Definition V_WRONG_TOPIC := 7.            (* delivered to a subscription of another topic / never published *)
Definition V_MISSING := 8.                (* a subscription that should have received a message did not (quiescence) *)
Definition V_NOT_EXACTLY_ONCE := 9.       (* persistent + always acking: received other than exactly once *)
Definition V_BLOCKING_EARLY_RETURN := 10. (* blocking Publish returned before an active subscription acked *)
Definition V_BLOCKING_ORDER := 11.        (* one publisher's messages received out of order (blocking mode) *)

(** ** C05: one unsettled message per subscription *)
Record st1 := ST1 { unsettled : list (nat * nat) (* (sub, copy) *); closing1 : list nat; allclosing : bool }.
Definition one_in_flight_step (s : st1) (e : aev) : st1 * list nat :=
  match e with
  | ARecv x _ c _ _ _ =>
      let mine := filter (fun q => Nat.eqb (fst q) x) (unsettled s) in
      (ST1 ((x, c) :: unsettled s) (closing1 s) (allclosing s),
       match mine with
       | [] => []
       | _ => if allclosing s || memb x (closing1 s) then [V_TWO_IN_FLIGHT_CLOSING] else [V_TWO_IN_FLIGHT]
       end)
  | AAck x c | ANack x c =>
      (ST1 (filter (fun q => negb (Nat.eqb (fst q) x && Nat.eqb (snd q) c)) (unsettled s)) (closing1 s) (allclosing s), [])
  | ACancel x => (ST1 (unsettled s) (x :: closing1 s) (allclosing s), [])
  | ACloseCall | ADriverClose => (ST1 (unsettled s) (closing1 s) true, [])
  | _ => (s, [])
  end.

(** ** C04: a message is seen again only after a Nack, never after an Ack *)
Inductive dstat := DDelivered (c : nat) | DNacked | DAcked.
Definition st2 := list ((nat * nat) * dstat).    (* (sub, publication) -> status *)
Fixpoint get2 (s : st2) (x p : nat) : option dstat :=
  match s with
  | [] => None
  | ((x', p'), d) :: s' => if Nat.eqb x x' && Nat.eqb p p' then Some d else get2 s' x p
  end.
Definition set_by_copy (s : st2) (x c : nat) (d : dstat) : st2 :=
  map (fun q => match q with
                | ((x', p'), DDelivered c') => if Nat.eqb x x' && Nat.eqb c c' then ((x', p'), d) else q
                | _ => q end) s.
Definition no_dup_step (s : st2) (e : aev) : st2 * list nat :=
  match e with
  | ARecv x p c _ _ _ =>
      (((x, p), DDelivered c) :: s,
       match get2 s x p with
       | None | Some DNacked => []
       | Some (DDelivered _) => [V_DUP_WITHOUT_NACK]
       | Some DAcked => [V_DUP_AFTER_ACK]
       end)
  | AAck x c => (set_by_copy s x c DAcked, [])
  | ANack x c => (set_by_copy s x c DNacked, [])
  | _ => (s, [])
  end.

(** ** C04: content, context, topic *)
Record st3 := ST3 { pubs3 : list (nat * nat) (* publication -> topic, once Publish was called *);
                    subs3 : list (nat * nat) (* subscription -> topic *);
                    canc3 : list nat (* subscriptions whose own context was cancelled *) }.
Fixpoint assoc (l : list (nat * nat)) (x : nat) : option nat :=
  match l with [] => None | (a, b) :: l' => if Nat.eqb a x then Some b else assoc l' x end.
Definition content_step (s : st3) (e : aev) : st3 * list nat :=
  match e with
  | APubCall _ k ms => (ST3 (map (fun p => (p, k)) ms ++ pubs3 s) (subs3 s) (canc3 s), [])
  | ASubCall x k => (ST3 (pubs3 s) ((x, k) :: subs3 s) (canc3 s), [])
  | ACancel x => (ST3 (pubs3 s) (subs3 s) (x :: canc3 s), [])
  | ACloseCall | ADriverClose => (ST3 (pubs3 s) (subs3 s) (9999 :: canc3 s), [])   (* 9999: Pub/Sub closing *)
  | ARecv x p _ cok live der =>
      (* the delivery context is a child of the Subscribe context: live unless that was cancelled
         or the Pub/Sub is closing (a Sender that saw [closing] cancels it on its way out) *)
      (s, (if cok then [] else [V_CONTENT]) ++ (if (live || memb x (canc3 s) || memb 9999 (canc3 s)) && der then [] else [V_CTX]) ++
          match assoc (pubs3 s) p, assoc (subs3 s) x with
          | Some k, Some k' => if Nat.eqb k k' then [] else [V_WRONG_TOPIC]
          | _, _ => [V_WRONG_TOPIC]
          end)
  | ACtxDone _ _ false => (s, [V_CTX])
  | _ => (s, [])
  end.

(** generic driver: violations with the index of the event *)
Fixpoint run_mon {St} (step : St -> aev -> St * list nat) (s : St) (h : list aev) (i : nat) : list (nat * nat) :=
  match h with
  | [] => []
  | e :: h' => let '(s', vs) := step s e in map (fun v => (i, v)) vs ++ run_mon step s' h' (S i)
  end.

Definition mon_one_in_flight (h : list aev) := run_mon one_in_flight_step (ST1 [] [] false) h 0.
Definition mon_no_dup (h : list aev) := run_mon no_dup_step [] h 0.
Definition mon_content (h : list aev) := run_mon content_step (ST3 [] [] []) h 0.

(** ** quiescence acceptors (C04 delivery, C11 exactly once) *)
Fixpoint upto_quiescent (h : list aev) : list aev :=
  match h with
  | [] => []
  | AQuiescent :: _ => []
  | e :: h' => e :: upto_quiescent h'
  end.
Definition count_recv (h : list aev) (x p : nat) : nat :=
  length (filter (fun e => match e with ARecv x' p' _ _ _ _ => Nat.eqb x x' && Nat.eqb p p' | _ => false end) h).
(** events strictly before the first event satisfying f *)
Fixpoint before (f : aev -> bool) (h : list aev) : list aev :=
  match h with [] => [] | e :: h' => if f e then [] else e :: before f h' end.
Definition is_close (e : aev) := match e with ACloseCall | ADriverClose => true | _ => false end.

(** subscriptions that are "well behaved until quiescence": Subscribe succeeded before any
    Close, never cancelled, never left a message unsettled *)
Definition good_subs (h : list aev) : list (nat * nat) :=
  let hq := upto_quiescent h in
  let pre := before is_close hq in
  flat_map (fun e => match e with
                     | ASubCall x k =>
                         if existsb (fun e' => match e' with ASubRet x' true => Nat.eqb x x' | _ => false end) pre
                            && negb (existsb (fun e' => match e' with
                                                        | ACancel x' | ALeave x' _ | AChanClosed x' => Nat.eqb x x'
                                                        | _ => false end) hq)
                         then [(x, k)] else []
                     | _ => [] end) pre.
Definition never_nacks (h : list aev) (x : nat) : bool :=
  negb (existsb (fun e => match e with ANack x' _ => Nat.eqb x x' | _ => false end) h).

(** successfully published before any Close: (publication, topic, index of the call event) *)
Definition good_pubs (h : list aev) : list (nat * nat * nat) :=
  let hq := upto_quiescent h in
  let pre := before is_close hq in
  let fix go (l : list aev) (i : nat) :=
    match l with
    | [] => []
    | APubCall t k ms :: l' =>
        (if existsb (fun e => match e with APubRet t' true => Nat.eqb t t' | _ => false end) pre
         then map (fun p => (p, k, i)) ms else []) ++ go l' (S i)
    | _ :: l' => go l' (S i)
    end in go pre 0.
Definition index_of_subret (h : list aev) (x : nat) : option nat :=
  let fix go (l : list aev) (i : nat) :=
    match l with
    | [] => None
    | ASubRet x' true :: l' => if Nat.eqb x x' then Some i else go l' (S i)
    | _ :: l' => go l' (S i)
    end in go h 0.

(** C11 (persistent): every good subscription has received every good publication of its
    topic - exactly once if it never Nacks *)
Definition mon_persistent_replay (h : list aev) : list (nat * nat * nat) :=
  let hq := upto_quiescent h in
  flat_map (fun xk =>
    flat_map (fun pk => let '(p, k, _) := pk in
      if Nat.eqb k (snd xk) then
        let n := count_recv hq (fst xk) p in
        if Nat.eqb n 0 then [(fst xk, p, V_MISSING)]
        else if never_nacks hq (fst xk) && negb (Nat.eqb n 1) then [(fst xk, p, V_NOT_EXACTLY_ONCE)] else []
      else []) (good_pubs h)) (good_subs h).

(** C04 (any mode): a good subscription whose Subscribe returned before Publish was called has
    received the message by quiescence *)
Definition mon_delivered (h : list aev) : list (nat * nat * nat) :=
  let hq := upto_quiescent h in
  flat_map (fun xk =>
    match index_of_subret hq (fst xk) with
    | None => []
    | Some si =>
        flat_map (fun pk => let '(p, k, ci) := pk in
          if Nat.eqb k (snd xk) && Nat.ltb si ci && Nat.eqb (count_recv hq (fst xk) p) 0
          then [(fst xk, p, V_MISSING)] else []) (good_pubs h)
    end) (good_subs h).

(** ** C05 blocking mode: Publish returns only after every subscription that was subscribed
    when it was called has Acked each message (or was cancelled / the Pub/Sub closed) *)
Fixpoint blocking_scan (h : list aev) (acked : list (nat * nat)) (* (sub, publication) acked so far *)
         (copies : list (nat * (nat * nat))) (* copy -> (sub, publication) *)
         (subs : list (nat * nat)) (gone : list nat) (closing : bool)
         (calls : list (nat * (nat * list nat * list nat))) (* t -> (topic, msgs, subs at call) *)
         (i : nat) : list (nat * nat) :=
  match h with
  | [] => []
  | e :: h' =>
      match e with
      | ASubRet x true =>
          blocking_scan h' acked copies subs gone closing calls (S i)
      | ASubCall x k => blocking_scan h' acked copies ((x, k) :: subs) gone closing calls (S i)
      | ARecv x p c _ _ _ => blocking_scan h' acked ((c, (x, p)) :: copies) subs gone closing calls (S i)
      | AAck x c =>
          let acked' := match assoc (map (fun q => (fst q, snd (snd q))) (filter (fun q => Nat.eqb (fst (snd q)) x) copies)) c with
                        | Some p => (x, p) :: acked | None => acked end in
          blocking_scan h' acked' copies subs gone closing calls (S i)
      | ACancel x | AChanClosed x => blocking_scan h' acked copies subs (x :: gone) closing calls (S i)
      | ACloseCall | ADriverClose => blocking_scan h' acked copies subs gone true calls (S i)
      | APubCall t k ms =>
          let active := map fst (filter (fun q => Nat.eqb (snd q) k) subs) in
          blocking_scan h' acked copies subs gone closing ((t, (k, ms, active)) :: calls) (S i)
      | APubRet t true =>
          let bad :=
            match (fix find (l : list (nat * (nat * list nat * list nat))) :=
                     match l with [] => None | (t', v) :: l' => if Nat.eqb t t' then Some v else find l' end) calls with
            | None => false
            | Some (_, ms, active) =>
                negb closing &&
                existsb (fun x => negb (memb x gone) &&
                                  existsb (fun p => negb (existsb (fun q => Nat.eqb (fst q) x && Nat.eqb (snd q) p) acked)) ms)
                        active
            end in
          (if bad then [(i, V_BLOCKING_EARLY_RETURN)] else []) ++
          blocking_scan h' acked copies subs gone closing calls (S i)
      | _ => blocking_scan h' acked copies subs gone closing calls (S i)
      end
  end.
(** only subscriptions whose Subscribe had RETURNED when Publish was called count as active;
    the scan above registers a subscription at its call, so histories are pre-filtered by the
    driver to put ASubCall at the position of the matching ASubRet *)
Definition mon_blocking (h : list aev) : list (nat * nat) := blocking_scan h [] [] [] [] false [] 0.

(** ** C05 blocking mode: every already-existing subscription receives one publisher's messages
    in the order they were published.  [owner] maps a publication to its publisher; the
    publication numbers of one publisher increase in publish order (harness convention).  Only
    deliveries to subscriptions whose Subscribe had returned when the Publish was called count
    (a persistent replay to a later subscription promises no order), and only until the first
    Close signal (after it the waits are skipped). *)
Fixpoint top_get (l : list (nat * nat * nat)) (x q : nat) : option nat :=
  match l with
  | [] => None
  | (x', q', v) :: l' => if Nat.eqb x x' && Nat.eqb q q' then Some v else top_get l' x q
  end.
Fixpoint order_scan (owner : list (nat * nat)) (h : list aev) (subs : list nat)
         (elig : list (nat * nat)) (* (publication, subscription existing at its Publish call) *)
         (top : list (nat * nat * nat)) (* (sub, publisher, highest publication received) *)
         (i : nat) : list (nat * nat) :=
  match h with
  | [] => []
  | e :: h' =>
      match e with
      | ACloseCall | ADriverClose => []
      | ASubCall x _ => order_scan owner h' (x :: subs) elig top (S i)
      | APubCall _ _ ms => order_scan owner h' subs (flat_map (fun p => map (fun x => (p, x)) subs) ms ++ elig) top (S i)
      | ARecv x p _ _ _ _ =>
          if existsb (fun q => Nat.eqb (fst q) p && Nat.eqb (snd q) x) elig then
            match assoc owner p with
            | None => order_scan owner h' subs elig top (S i)
            | Some q =>
                match top_get top x q with
                | Some v => if Nat.ltb p v then (i, V_BLOCKING_ORDER) :: order_scan owner h' subs elig top (S i)
                            else order_scan owner h' subs elig ((x, q, p) :: top) (S i)
                | None => order_scan owner h' subs elig ((x, q, p) :: top) (S i)
                end
            end
          else order_scan owner h' subs elig top (S i)
      | _ => order_scan owner h' subs elig top (S i)
      end
  end.
Definition mon_blocking_order (owner : list (nat * nat)) (h : list aev) : list (nat * nat) :=
  order_scan owner h [] [] [] 0.
