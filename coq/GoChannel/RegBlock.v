(** Registry protocol of the GoChannel (GoChannel/Reg.v), BLOCKING mode
    (BlockPublishUntilSubscriberAck): liveness under a side condition, and publish order.

    In blocking mode progress is false in general (RegWitness.d9_deadlock: a Publish waits for
    an Ack while holding the read lock, a Subscribe / teardown has announced itself as writer,
    the consumer's own Publish queues behind the announced writer).  The deadlock needs the
    pending writer:

      blocking_progress_without_pending_writer :
        every reachable state (any mode) in which no Subscribe / replay / teardown is between its
        write-lock request and its unlock ([writer s = None], [wpending s = []]) and something
        is busy has an enabled internal label, or some Publish is at PWait for a message p whose
        snapshot was taken, p is not acked, nothing is closing - and the environment label
        [GAllAcked p] (Layer A: every Sender of p has finished) is enabled.  "A blocked Publish
        waits for nothing but its subscribers' Acks unless a writer is pending."
      d9_has_pending_writer : the D9 witness is in the complement ([wpending] is not empty).
      blocking_internal_run_bounded : the termination measure of RegLive decreases on every
        internal step in blocking mode too (RegLive.measure_step never used the mode).

    Publish order (per publisher FIFO, the Layer B half of Monitor.mon_blocking_order):
      blocking_snapshot_order : in blocking mode, when a Publish call takes the snapshot of a
        message, every earlier message of the same call is acked or the Pub/Sub is closing
        (so, with Layer A "acked = every Sender finished", its copies were settled before any
        copy of the later message exists). *)
From WM Require Import Base.Prelude GoChannel.Reg GoChannel.RegWitness GoChannel.RegLocks
                       GoChannel.RegInv GoChannel.RegSend GoChannel.RegLive.

(** a Publish waits only for messages whose snapshot it has taken *)
Definition InvW (s : gstate) : Prop :=
  forall t k p rem, thr s t = PWait k p rem -> mem p (sent s) = true.
Lemma invw_init pers blk fx : InvW (ginit pers blk fx).
Proof. intros t k p rem. simpl. discriminate. Qed.
Lemma invw_step s l s' : InvW s -> gstep s l = Some s' -> InvW s'.
Proof.
  intros I H t' k' p' rem'. step_cases' H; simpl; try apply I.
  all: upd_all; simpl; try apply I; try congruence.
  all: try (intros [= <- <- <-]; unfold mem; simpl; now rewrite Nat.eqb_refl).
  all: intros E; apply I in E; unfold mem in *; simpl; rewrite E; apply orb_true_r.
Qed.
Theorem reg_invw pers blk fx ls : InvW (grun (ginit pers blk fx) ls).
Proof. apply grun_ind; [exact invw_step|apply invw_init]. Qed.

(** some Publish waits for the Acks of p - and for nothing else *)
Definition Waiting (s : gstate) : Prop :=
  exists t k p rem, thr s t = PWait k p rem /\ mem p (acked s) = false /\ gclosing s = false
                    /\ en s (GAllAcked p).

Section NoPendingWriter.
Variable s : gstate.
Hypotheses (I0 : Inv0 s) (I1 : Inv1 s) (IW : InvW s)
           (NW : writer s = None) (NP : wpending s = []).

Lemma no_sb_w x : sb_w (sb s x) = false.
Proof.
  destruct (sb_w (sb s x)) eqn:E; [|reflexivity]. apply (o_writer_S s I0) in E. congruence.
Qed.
Lemma no_td_w x : td_w (td s x) = false.
Proof.
  destruct (td_w (td s x)) eqn:E; [|reflexivity]. apply (o_writer_T s I0) in E. congruence.
Qed.
Lemma no_sb_ann x : sb_ann (sb s x) = false.
Proof.
  pose proof (o_pend_S s I0 x) as H. rewrite NP in H. destruct (sb_ann (sb s x)); [discriminate|reflexivity].
Qed.
Lemma no_td_ann x : td_ann (td s x) = false.
Proof.
  pose proof (o_pend_T s I0 x) as H. rewrite NP in H. destruct (td_ann (td s x)); [discriminate|reflexivity].
Qed.

Lemma pwait_prog t k p rem : thr s t = PWait k p rem -> Prog s \/ Waiting s.
Proof.
  intros E. destruct (mem p (acked s) || gclosing s) eqn:Eg.
  - left. exists (GT t). split; [reflexivity|]. unfold en. simpl. rewrite E, Eg. eauto.
  - right. apply orb_false_iff in Eg as [Ea Ec]. exists t, k, p, rem. repeat split; auto.
    unfold en. simpl. rewrite (IW t k p rem E). eauto.
Qed.
Lemma tlock_holder_b k o : tlock s k = Some o -> Prog s \/ Waiting s.
Proof.
  intros E. destruct o as [t|x|x].
  - apply (o_tl_P s I0) in E. destruct (thr s t) eqn:Et; simpl in E; try discriminate E;
      try (left; apply (tp_free_en s t); now rewrite Et). now apply (pwait_prog t k0 p rem).
  - apply (o_tl_S s I0) in E. pose proof (no_sb_w x). destruct (sb s x); simpl in *; congruence.
  - apply (o_tl_T s I0) in E. pose proof (no_td_w x). destruct (td s x); simpl in *; congruence.
Qed.
(** a counted subscription while closing: nothing of it can be blocked *)
Lemma counted_prog_b x : counted s x = true -> gclosing s = true -> Prog s.
Proof.
  intros Hc Hg. unfold counted in Hc. apply andb_true_iff in Hc as [Hs Hd].
  pose proof (no_sb_w x) as A. pose proof (no_sb_ann x) as B.
  destruct (sb s x) eqn:Es; simpl in *; try discriminate;
    try (apply (sb_free_en s x); now rewrite Es).
  pose proof (r_started s I1 x) as St. rewrite Es in St.
  pose proof (no_td_w x) as C. pose proof (no_td_ann x) as D.
  destruct (td s x) eqn:Ed; simpl in *; try discriminate;
    try (apply (td_free_en s x); now rewrite Ed).
  - specialize (St eq_refl). discriminate St.
  - exists (GD x). split; [reflexivity|]. unfold en. simpl. rewrite Ed, Hg, orb_true_r. eauto.
Qed.
Lemma clock_holder_b t : clock s = Some t -> Prog s.
Proof.
  intros E. apply (o_clock s I0) in E. destruct (thr s t) eqn:Et; simpl in E; try discriminate E;
    try (apply (tp_free_en s t); now rewrite Et).
  destruct (wg s) as [|n] eqn:Ew.
  - exists (GT t). split; [reflexivity|]. unfold en. simpl. rewrite Et, Ew. eauto.
  - assert (Hg : gclosing s = true).
    { rewrite <- (o_closed s I0). apply (r_closer s I1 t). now rewrite Et. }
    destruct (nfilter_pos_ex (counted s) (allsubs s)) as (x & _ & Hc);
      [rewrite <- (r_wg s I1); lia|]. now apply (counted_prog_b x).
Qed.

Lemma thr_active_b t : tp_active (thr s t) = true -> Prog s \/ Waiting s.
Proof.
  intros Ha. destruct (thr s t) eqn:Et; simpl in *; try discriminate;
    try (left; apply (tp_free_en s t); now rewrite Et).
  - left. destruct (clock s) as [t'|] eqn:Ec; [now apply (clock_holder_b t')|].
    exists (GT t). split; [reflexivity|]. unfold en. simpl. rewrite Et, Ec. destruct (closed s); eauto.
  - left. exists (GT t). split; [reflexivity|]. unfold en. simpl. rewrite Et. unfold can_rlock.
    rewrite NW, NP. eauto.
  - destruct (tlock s k) as [o|] eqn:El; [now apply (tlock_holder_b k o)|].
    left. exists (GT t). split; [reflexivity|]. unfold en. simpl. rewrite Et, El. eauto.
  - now apply (pwait_prog t k p rem).
  - left. destruct (clock s) as [t'|] eqn:Ec; [now apply (clock_holder_b t')|].
    exists (GT t). split; [reflexivity|]. unfold en. simpl. rewrite Et, Ec. eauto.
  - left. apply (clock_holder_b t). apply (o_clock s I0). now rewrite Et.
Qed.
Lemma sb_active_b x : sb_active (sb s x) = true -> Prog s.
Proof.
  intros Ha. pose proof (no_sb_w x) as A. pose proof (no_sb_ann x) as B.
  destruct (sb s x) eqn:Es; simpl in *; try discriminate;
    try (apply (sb_free_en s x); now rewrite Es).
  destruct (clock s) as [t'|] eqn:Ec; [now apply (clock_holder_b t')|].
  exists (GS_ x). split; [reflexivity|]. unfold en. simpl. rewrite Es, Ec. destruct (closed s); eauto.
Qed.
Lemma td_active_b x : td_active s x = true -> Prog s.
Proof.
  unfold td_active. intros Ha. pose proof (no_td_w x) as C. pose proof (no_td_ann x) as D.
  destruct (td s x) eqn:Ed; simpl in *; try discriminate;
    try (apply (td_free_en s x); now rewrite Ed).
  exists (GD x). split; [reflexivity|]. unfold en. simpl. rewrite Ed, Ha. eauto.
Qed.
End NoPendingWriter.

Theorem blocking_progress_without_pending_writer pers blk fx ls :
  let s := grun (ginit pers blk fx) ls in
  writer s = None -> wpending s = [] -> busy s ->
  (exists l, internal l = true /\ en s l) \/ Waiting s.
Proof.
  intros s NW NP Hb. destruct (reg_inv pers blk fx ls) as (I0 & I1 & _). fold s in I0, I1.
  pose proof (reg_invw pers blk fx ls) as IW. fold s in IW.
  destruct Hb as [[t Ht]|[[x Hx]|[x Hx]]].
  - eapply thr_active_b; eauto.
  - left. eapply sb_active_b; eauto.
  - left. eapply td_active_b; eauto.
Qed.

(** the D9 deadlock is in the complement: a writer is pending *)
Example d9_has_pending_writer :
  let s := grun (ginit false true true) d9_schedule in
  wpending s = [OwS 1] /\ writer s = None /\ thr s 0 = PWait 0 1 [] /\ mem 1 (acked s) = false.
Proof. vm_compute. repeat split; reflexivity. Qed.

(** termination: the measure argument does not depend on the mode *)
Theorem blocking_internal_run_bounded pers blk fx ls ils s' :
  let s := grun (ginit pers blk fx) ls in
  forallb internal ils = true -> greplay s ils = Some s' -> length ils + measure s' <= measure s.
Proof. intros s. apply internal_run_bounded; [apply reg_inv|apply reg_invl]. Qed.

(** * Publish order in blocking mode *)
(** where a Publish call is in its message list *)
Definition split_ok (s : gstate) (t : tid) : Prop :=
  match thr s t with
  | PCheck _ ms | PRLock _ ms | PTLock _ ms | PPersist _ ms => pmsgs s t = ms
  | PSend _ rem => exists done, pmsgs s t = done ++ rem
  | PWait _ p rem => exists done, pmsgs s t = done ++ p :: rem
  | _ => True
  end.
Record InvO (s : gstate) : Prop := {
  b_split : forall t, split_ok s t;
  b_nodup : forall t p, cnt p (pmsgs s t) <= 1
}.
Lemma invo_init pers blk fx : InvO (ginit pers blk fx).
Proof. constructor; intros; [exact Logic.I|simpl; lia]. Qed.

Lemma b_split_step s l s' : InvO s -> gstep s l = Some s' -> forall t, split_ok s' t.
Proof.
  intros I H t'. pose proof (b_split s I) as C. unfold split_ok in *.
  step_cases' H; simpl; try apply C.
  all: upd_all; simpl; try apply C; try exact Logic.I; try reflexivity.
  all: try (match goal with E : thr _ ?t = _ |- _ => specialize (C t); rewrite E in C end).
  all: try assumption.
  all: try solve [exists []; simpl; auto].
  all: try (destruct C as [done C]; exists (done ++ [p]); rewrite <- app_assoc; exact C).
  all: try (destruct C as [done C]; exists done; exact C).
Qed.
Lemma b_nodup_step s l s' : InvO s -> gstep s l = Some s' -> forall t p, cnt p (pmsgs s' t) <= 1.
Proof.
  intros I H t' p'. pose proof (b_nodup s I) as C. step_cases' H; simpl; try apply C.
  upd_all; [|apply C]. match goal with F : nodupb _ && disjointb _ _ = true |- _ =>
    destruct (fresh_spec _ _ F) as [F1 _] end. apply F1.
Qed.
Lemma invo_step s l s' : InvO s -> gstep s l = Some s' -> InvO s'.
Proof. intros I H. constructor; [eapply b_split_step|eapply b_nodup_step]; eauto. Qed.
Theorem reg_invo pers blk fx ls : InvO (grun (ginit pers blk fx) ls).
Proof. apply grun_ind; [exact invo_step|apply invo_init]. Qed.

(** blocking mode (with the D7 repair): when a Publish call is about to take the snapshot of
    message p, its message list is [done ++ p :: rem] and every message in [done] - the ones
    published earlier by this call - is acked by all subscribers of its snapshot, or the
    Pub/Sub is closing.  (Senders of p do not exist yet: RegSend.pend_no_sender.) *)
Theorem blocking_snapshot_order pers ls t k p rem : let s := grun (ginit pers true true) ls in
  thr s t = PSend k (p :: rem) ->
  exists done, pmsgs s t = done ++ p :: rem
    /\ (forall q, In q done -> mem q (acked s) = true \/ gclosing s = true)
    /\ (forall x, nsenders s p x = 0).
Proof.
  intros s E. pose proof (reg_invo pers true true ls) as IO. fold s in IO.
  pose proof (b_split s IO t) as Sp. unfold split_ok in Sp. rewrite E in Sp.
  destruct Sp as [done Sp]. exists done. split; [exact Sp|]. split.
  - intros q Hq.
    assert (Hin : In q (pmsgs s t)) by (rewrite Sp; apply in_or_app; now left).
    destruct (blocking_waits_pc pers ls t (p :: rem) q) as [A|A]; fold s; auto; [now rewrite E|].
    exfalso. pose proof (b_nodup s IO t q) as Hn. rewrite Sp, cnt_app in Hn.
    apply cnt_pos_In in Hq. apply cnt_pos_In in A. lia.
  - intros x. destruct (reg_inv pers true true ls) as (_ & _ & I2). fold s in I2.
    rewrite nsenders_scnt. apply (pend_no_sender s t p x I2). rewrite E. now left.
Qed.

Print Assumptions blocking_progress_without_pending_writer.
Print Assumptions blocking_internal_run_bounded.
Print Assumptions blocking_snapshot_order.
