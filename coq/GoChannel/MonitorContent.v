(** The content / context / topic acceptor of GoChannel/Monitor.v ([mon_content], C04) is SOUND
    for the model: it accepts every history the model produces.

    [trace_ctx x s ls]: as MonitorSound.trace, but the ARecv event carries the context liveness
    computed from the state, [SubCtx.ctx_live s c], instead of a constant (content_ok and
    ctx_derived are [true]: the model has no message content, and the delivery context is by
    construction a child of the Subscribe context).
    [prefix calls x k]: the API calls before: APubCall t k' ms for every (t, k', ms) in [calls]
    and ASubCall x k.  The glue to Layer B is the hypothesis that every publication a Sender is
    spawned for on this subscription was published to the subscription's topic k - that is
    RegSend.sender_topic ([In (p, x) (senders s) -> ptopic s p = stopic s x]).

    Theorems
      content_sound    : mon_content (prefix calls x k ++ trace_ctx x (sinit cap0 fx) ls) = []
                         whenever [forall p, In p (spawn_pubs ls) -> assoc (pubtab calls) p = Some k]
                         - every cap0, fx, ls.  The context clause uses SubCtx (T3): a copy is
                         received with a live context unless s.closing is closed, and then the
                         teardown was woken, i.e. ACancel x is in the history - exactly the
                         acceptor's exemption.
      content_dead_ctx_accepted : the T3(c) witness run IS accepted (dead context on a
                         cancelled subscription), and without the ACancel the acceptor would
                         reject it (so the exemption is needed and used).
      content_hyp_needed : a Sender for a publication of ANOTHER topic is rejected
                         (V_WRONG_TOPIC): the hypothesis cannot be dropped. *)
From WM Require Import Base.Prelude Message.Model GoChannel.Sub GoChannel.SubProofs
                       GoChannel.SubInvX GoChannel.SubLive GoChannel.SubCtx
                       GoChannel.Monitor GoChannel.MonitorSound.

Definition emit_ctx (x : nat) (s : sstate) (l : label) : list aev :=
  match l with
  | LRecv => match buf s with
             | c :: _ => [ARecv x (c_pub (copies s c)) c true (ctx_live s c) true]
             | [] => []
             end
  | LHandoff t => match thr s t with
                  | SSend p c => [ARecv x p c true (ctx_live s c) true]
                  | _ => []
                  end
  | LAck c => [AAck x c]
  | LNack c => [ANack x c]
  | LTdWake => [ACancel x]
  | _ => []
  end.
Fixpoint trace_ctx (x : nat) (s : sstate) (ls : list label) : list aev :=
  match ls with
  | [] => []
  | l :: ls' => match sstep s l with
                | Some s' => emit_ctx x s l ++ trace_ctx x s' ls'
                | None => trace_ctx x s ls'
                end
  end.

(** the publication table the acceptor has built after the Publish calls *)
Fixpoint pubtab_from (acc : list (nat * nat)) (calls : list (nat * nat * list nat)) : list (nat * nat) :=
  match calls with
  | [] => acc
  | (_, k, ms) :: calls' => pubtab_from (map (fun p => (p, k)) ms ++ acc) calls'
  end.
Definition pubtab := pubtab_from [].
Definition prefix (calls : list (nat * nat * list nat)) (x k : nat) : list aev :=
  map (fun c => match c with (t, k', ms) => APubCall t k' ms end) calls ++ [ASubCall x k].

Lemma woken_step s l s' : sstep s l = Some s' -> woken (td s) = true -> woken (td s') = true.
Proof.
  intros E. destruct l; simpl in E; sstep_cases E; simpl; auto;
    try (match goal with H : td _ = _ |- _ => rewrite H end; simpl; congruence).
Qed.

Lemma woken_same s l s' : sstep s l = Some s' -> l <> LTdWake -> woken (td s') = woken (td s).
Proof.
  intros E N. destruct l; simpl in E; sstep_cases E; simpl; auto; try congruence;
    match goal with H : td _ = _ |- _ => rewrite H end; reflexivity.
Qed.

Section Content.
Variables (x k : nat) (P : list (nat * nat)).

Definition Q (p : pubid) : Prop := assoc P p = Some k.

(** every publication in the system (and still to come) is in the table with topic k *)
Record Z (s : sstate) (rest : list label) : Prop := {
  z_copy : forall c, c < next s -> Q (c_pub (copies s c));
  z_thr : forall t p, spc_pub (thr s t) = Some p -> Q p;
  z_rest : forall p, In p (spawn_pubs rest) -> Q p
}.

Lemma z_skip s l rest : Z s (l :: rest) -> Z s rest.
Proof.
  intros [A B C]. constructor; auto. intros p Hin. apply C. rewrite spawn_pubs_cons.
  apply in_or_app. now right.
Qed.
Lemma z_frame s s' l rest : Z s (l :: rest) ->
  (forall t, spc_pub (thr s' t) = spc_pub (thr s t)) ->
  (forall c, c < next s' -> (c < next s /\ c_pub (copies s' c) = c_pub (copies s c))
                            \/ Q (c_pub (copies s' c))) -> Z s' rest.
Proof.
  intros Hz Ht Hc. apply z_skip in Hz. destruct Hz as [A B C]. constructor; auto.
  - intros c Hlt. destruct (Hc c Hlt) as [[H1 H2]|H]; [rewrite H2; now apply A|exact H].
  - intros t p. rewrite Ht. apply B.
Qed.
Lemma z_step s l s' rest : Z s (l :: rest) -> sstep s l = Some s' -> Z s' rest.
Proof.
  intros Hz E.
  destruct l as [t p|  | | |t|t|t|t|t|t| |c|c]; simpl in E.
  - destruct (thr s t) eqn:Et; try discriminate. inversion E; subst s'; clear E.
    destruct Hz as [A B C]. constructor; simpl; auto.
    + intros t1 q. updt t t1; simpl; [|apply B]. intros [= <-]. apply C. simpl. now left.
    + intros q Hin. apply C. simpl. now right.
  - sstep_cases E; apply (z_frame s _ _ rest Hz); simpl; auto.
  - sstep_cases E; apply (z_frame s _ _ rest Hz); simpl; auto.
  - sstep_cases E; apply (z_frame s _ _ rest Hz); simpl; auto.
  - destruct (thr s t) as [|p|p|p c|p c|p|p] eqn:Et; try discriminate.
    + sstep_cases E. apply (z_frame s _ _ rest Hz); simpl; auto.
      intros t'. updt t t'; [now rewrite Et|reflexivity].
    + assert (Hexit : Z (set_thr s t (SExit p)) rest).
      { apply (z_frame s _ _ rest Hz); simpl; auto.
        intros t'. updt t t'; [now rewrite Et|reflexivity]. }
      destruct (closedf s); [inversion E; subst; exact Hexit|].
      destruct (fixed s && closing s); inversion E; subst; [exact Hexit|].
      apply (z_frame s _ _ rest Hz); simpl.
      * intros t'. updt t t'; [now rewrite Et|reflexivity].
      * intros c Hlt. destruct (Nat.eq_dec c (next s)) as [->|Nc].
        -- right. rewrite upd_same. simpl. apply (z_thr s _ Hz t). now rewrite Et.
        -- left. rewrite upd_other by exact Nc. split; [lia|reflexivity].
    + sstep_cases E. apply (z_frame s _ _ rest Hz); simpl; auto.
      intros t'. updt t t'; [now rewrite Et|reflexivity].
  - destruct (thr s t) as [|p|p|p c|p c|p|p] eqn:Et; try discriminate.
    sstep_cases E; apply (z_frame s _ _ rest Hz); simpl; auto;
      try (intros t'; updt t t'; [now rewrite Et|reflexivity]).
    intros c' Hlt. left. updt c c'; simpl; auto.
  - destruct (thr s t) as [|p|p|p c|p c|p|p] eqn:Et; try discriminate.
    sstep_cases E; apply (z_frame s _ _ rest Hz); simpl; auto;
      try (intros t'; updt t t'; [now rewrite Et|reflexivity]).
    intros c' Hlt. left. updt c c'; simpl; auto.
  - destruct (closing s); try discriminate.
    destruct (thr s t) as [|p|p|p c|p c|p|p] eqn:Et; try discriminate;
      inversion E; subst; apply (z_frame s _ _ rest Hz); simpl; auto;
      intros t'; (updt t t'; [now rewrite Et|reflexivity]).
  - destruct (thr s t) as [|p|p|p c|p c|p|p] eqn:Et; try discriminate.
    sstep_cases E. apply (z_frame s _ _ rest Hz); simpl; auto.
    intros t'. updt t t'; [now rewrite Et|reflexivity].
  - destruct (thr s t) as [|p|p|p c|p c|p|p] eqn:Et; try discriminate.
    sstep_cases E. apply (z_frame s _ _ rest Hz); simpl; auto.
    intros t'. updt t t'; [now rewrite Et|reflexivity].
  - sstep_cases E. apply (z_frame s _ _ rest Hz); simpl; auto.
    intros c' Hlt. left. updt c c'; simpl; auto.
  - sstep_cases E; try (apply (z_skip _ _ _ Hz)); apply (z_frame s _ _ rest Hz); simpl; auto.
    intros c' Hlt. left. updt c c'; simpl; auto.
  - sstep_cases E; try (apply (z_skip _ _ _ Hz)); apply (z_frame s _ _ rest Hz); simpl; auto.
    intros c' Hlt. left. updt c c'; simpl; auto.
Qed.

(** the acceptor's state: the tables are fixed; x is in the cancelled list once woken *)
Definition R3 (s : sstate) (m : st3) : Prop :=
  pubs3 m = P /\ assoc (subs3 m) x = Some k /\ (woken (td s) = true -> memb x (canc3 m) = true).

Lemma recv_content_ok s m p c live :
  R3 s m -> Q p -> (live = false -> woken (td s) = true) ->
  snd (content_step m (ARecv x p c true live true)) = [] /\ fst (content_step m (ARecv x p c true live true)) = m.
Proof.
  intros (E1 & E2 & E3) Hq Hl. simpl. split; [|reflexivity].
  rewrite E1, E2. unfold Q in Hq. rewrite Hq, Nat.eqb_refl.
  destruct live; simpl; [reflexivity|]. rewrite (E3 (Hl eq_refl)). reflexivity.
Qed.

Lemma sound3 ls : forall s m i, SX s -> Z s ls -> R3 s m ->
  run_mon content_step m (trace_ctx x s ls) i = [].
Proof.
  induction ls as [|l ls IH]; intros s m i SXs Hz R; simpl; [reflexivity|].
  destruct (sstep s l) as [s'|] eqn:E; [|apply IH; auto; eapply z_skip; eauto].
  assert (SXs' : SX s') by (eapply sx_step; eauto). pose proof SXs as [I X].
  assert (Hz' : Z s' ls) by (eapply z_step; eauto).
  assert (R' : l <> LTdWake -> R3 s' m).
  { intros N. destruct R as (A & B & C). repeat split; auto.
    rewrite (woken_same s l s' E N). exact C. }
  destruct l as [t p|  | | |t|t|t|t|t|t| |c|c]; simpl emit_ctx; simpl in E;
    try (simpl; apply IH; auto; apply R'; discriminate).
  - (* LTdWake *)
    sstep_cases E. simpl. apply IH; auto. destruct R as (A & B & C). repeat split; auto.
    intros _. simpl. unfold memb. simpl. now rewrite Nat.eqb_refl.
  - (* LHandoff *)
    destruct (thr s t) as [|p|p|p c|p c|p|p] eqn:Et; try discriminate.
    destruct (handoff_ctx_live s s' t p c SXs Et) as (Hl & _); [simpl; rewrite Et; exact E|].
    assert (Hq : Q p) by (apply (z_thr s _ Hz t); now rewrite Et).
    destruct (recv_content_ok s m p c (ctx_live s c) R Hq) as [V M]; [congruence|].
    cbn [app run_mon]. destruct (content_step m (ARecv x p c true (ctx_live s c) true)) as [m1 vs].
    simpl in V, M. subst. simpl. apply IH; auto. apply R'. discriminate.
  - (* LRecv *)
    destruct (buf s) as [|c b] eqn:Eb; try discriminate.
    assert (Hin : In c (buf s)) by (rewrite Eb; now left).
    destruct (v_buf _ I c Hin) as [Hlt _].
    assert (Hq : Q (c_pub (copies s c))) by now apply (z_copy s _ Hz).
    assert (Hl : ctx_live s c = false -> woken (td s) = true).
    { intros Hd. destruct (closing s) eqn:Ec.
      - rewrite (v_closing _ I) in Ec. destruct (td s); simpl in *; congruence.
      - destruct (recv_ctx_live s s' c b SXs Eb) as (H1 & _); [simpl; rewrite Eb; exact E|exact Ec|congruence]. }
    destruct (recv_content_ok s m _ c (ctx_live s c) R Hq Hl) as [V M].
    cbn [app run_mon].
    destruct (content_step m (ARecv x (c_pub (copies s c)) c true (ctx_live s c) true)) as [m1 vs].
    simpl in V, M. subst. simpl. apply IH; auto. apply R'. discriminate.
Qed.
End Content.

Lemma run_prefix_calls calls : forall acc subs i h,
  run_mon content_step (ST3 acc subs []) (map (fun c => match c with (t, k', ms) => APubCall t k' ms end) calls ++ h) i
  = run_mon content_step (ST3 (pubtab_from acc calls) subs []) h (i + length calls).
Proof.
  induction calls as [|[[t k'] ms] calls IH]; intros acc subs i h; simpl.
  - now rewrite Nat.add_0_r.
  - rewrite IH. f_equal. lia.
Qed.

Theorem content_sound cap0 fx calls x k ls :
  (forall p, In p (spawn_pubs ls) -> assoc (pubtab calls) p = Some k) ->
  mon_content (prefix calls x k ++ trace_ctx x (sinit cap0 fx) ls) = [].
Proof.
  intros Hp. unfold mon_content, prefix. rewrite <- app_assoc, run_prefix_calls. simpl.
  apply (sound3 x k (pubtab calls)).
  - apply (sx_reach cap0 fx []).
  - constructor; simpl; [lia|discriminate|exact Hp].
  - repeat split; simpl; [now rewrite Nat.eqb_refl|discriminate].
Qed.

(** the T3(c) run - a buffered copy received with a dead context after the cancel - is accepted
    because of the ACancel; strip the ACancel from the history and the acceptor rejects it *)
Example content_dead_ctx_accepted :
  let h := prefix [(0, 3, [10])] 7 3 ++ trace_ctx 7 (sinit 1 true) (dead_ctx_schedule ++ [LRecv]) in
  mon_content h = []
  /\ existsb (fun e => match e with ARecv _ _ _ _ false _ => true | _ => false end) h = true
  /\ mon_content (filter (fun e => match e with ACancel _ => false | _ => true end) h) = [(2, V_CTX)].
Proof. vm_compute. repeat split; reflexivity. Qed.

(** the hypothesis is needed: a Sender for a publication of another topic is rejected *)
Example content_hyp_needed :
  mon_content (prefix [(0, 4, [10])] 7 3
               ++ trace_ctx 7 (sinit 0 true) [LSpawn 0 10; LStep 0; LStep 0; LHandoff 0])
  = [(2, V_WRONG_TOPIC)].
Proof. vm_compute. reflexivity. Qed.

Print Assumptions content_sound.
