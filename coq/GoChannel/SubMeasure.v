(** Layer A of the GoChannel model: the measure of SubLive.v decreases on EVERY step of the
    subscription itself - woken or not, hand-off included - and is untouched by the consumer's
    LRecv / LAck; only a Nack can raise it (by at most 3 per Sender thread: the price of one more
    round of the send loop).  This is the instance half of the measure for
    [blocking_returns_composed] / "every Close returns".
      moving_step_decreases : LTdStep, LStep, LSendBuf, LHandoff, LSeeClosing, LSeeAcked, LSeeNacked
                              strictly decrease [measure T s] (T covers the started threads).
      recv_ack_measure      : LRecv and LAck leave it unchanged.
      nack_measure          : LNack c raises the rank of at most the one thread waiting for c. *)
From WM Require Import Base.Prelude Message.Model GoChannel.Sub GoChannel.SubProofs
                       GoChannel.SubInvX GoChannel.SubLive.

Definition moving (l : label) : bool :=
  match l with
  | LTdStep | LStep _ | LSendBuf _ | LHandoff _ | LSeeClosing _ | LSeeAcked _ | LSeeNacked _ => true
  | _ => false
  end.

Theorem moving_step_decreases T s l s' : SX s -> covers T s ->
  moving l = true -> sstep s l = Some s' ->
  measure T s' < measure T s /\ (woken (td s) = true -> woken (td s') = true) /\ covers T s'.
Proof.
  intros [I X] Hc Hq Hs.
  assert (Hcov : forall s2, (forall y, thr s2 y <> SNone -> thr s y <> SNone) -> covers T s2).
  { intros s2 Hy y Hn. apply Hc. now apply Hy. }
  destruct l as [t p|  | | |t|t|t|t|t|t| |c|c]; simpl in Hq; try discriminate Hq; simpl in Hs.
  - (* LTdStep *)
    destruct (td s) eqn:E; try discriminate.
    + inv_some'. unfold measure; simpl. rewrite E. repeat split; auto; simpl; lia.
    + destruct (sending s); try discriminate. inv_some'. unfold measure; simpl. rewrite E.
      repeat split; auto; simpl; lia.
    + inv_some'. unfold measure; simpl. rewrite E. repeat split; auto; simpl; lia.
    + inv_some'. unfold measure; simpl. rewrite E. repeat split; auto; simpl; lia.
  - (* LStep *)
    destruct (thr s t) as [|p|p|p c|p c|p|p] eqn:E; try discriminate.
    + destruct (sending s); try discriminate. inv_some'. split; [|split; [exact (fun h => h)|]].
      * apply (rank_thr_only s _ t T); simpl; auto; try congruence.
        -- intros y ny. now rewrite upd_other.
        -- unfold s_rank; simpl. rewrite upd_same, E. lia.
      * apply Hcov. simpl. intros y. updt t y; congruence.
    + assert (Hexit : measure T (set_thr s t (SExit p)) < measure T s
                      /\ (woken (td s) = true -> woken (td (set_thr s t (SExit p))) = true)
                      /\ covers T (set_thr s t (SExit p))).
      { split; [|split; [exact (fun h => h)|]].
        * apply (rank_thr_only s _ t T); simpl; auto; try congruence.
          -- intros y ny. now rewrite upd_other.
          -- unfold s_rank; simpl. rewrite upd_same, E. lia.
        * apply Hcov. simpl. intros y. updt t y; congruence. }
      destruct (closedf s); [inv_some'; exact Hexit|].
      destruct (fixed s && closing s); [inv_some'; exact Hexit|]. inv_some'.
      split; [|split; [exact (fun h => h)|]].
      * (* a fresh copy: no other thread's current copy is [next s] *)
        unfold measure; simpl.
        assert (sumf (s_rank (set_thr (set_next (set_copy s (next s) (CP p t Unsettled false false))
                                          (S (next s))) t (SSend p (next s)))) T
                < sumf (s_rank s) T); [|lia].
        apply sumf_lt with t; [| |apply Hc; congruence].
        -- intros y. unfold s_rank; simpl. updt t y; [rewrite E; lia|].
           destruct (thr s y) as [|q|q|q c|q c|q|q] eqn:Ey; try lia.
           destruct (v_wait _ I _ _ _ Ey) as (Hlt & _). rewrite upd_other by lia. lia.
        -- unfold s_rank; simpl. rewrite upd_same, E. lia.
      * apply Hcov. simpl. intros y. updt t y; congruence.
    + inv_some'. split; [|split; [exact (fun h => h)|]].
      * apply (rank_thr_only s _ t T); simpl; auto; try congruence.
        -- intros y ny. now rewrite upd_other.
        -- unfold s_rank; simpl. rewrite upd_same, E. lia.
      * apply Hcov. simpl. intros y. updt t y; congruence.
  - (* LSendBuf *)
    destruct (thr s t) as [|p|p|p c|p c|p|p] eqn:E; try discriminate.
    destruct (v_send _ I _ _ _ E) as (Hlt & Hus & _ & Hcl & _).
    assert (Hcc : chan_closed s = false).
    { destruct (v_closed _ I) as [H1 H2]. congruence. }
    rewrite Hcc in Hs. destruct (Nat.ltb (length (buf s)) (cap s)); try discriminate. inv_some'.
    split; [|split; [exact (fun h => h)|]].
    + unfold measure; simpl.
      assert (sumf (s_rank (set_thr (set_buf (set_copy s c (mark_sent (copies s c))) (buf s ++ [c]))
                                    t (SWait p c))) T < sumf (s_rank s) T); [|lia].
      assert (Hst : forall c0, c_st (upd (copies s) c (mark_sent (copies s c)) c0) = c_st (copies s c0)).
      { intros c0. updt c c0; reflexivity. }
      apply sumf_lt with t; [| |apply Hc; congruence].
      * intros y. unfold s_rank; simpl. updt t y.
        -- rewrite E. simpl. destruct (c_st (copies s c)) eqn:Est; try lia.
           (* a copy that was never sent cannot be Nacked *)
           exfalso. pose proof (unsent_unrecv s c I Hus) as Hr.
           rewrite (x_settled s X c) in Hr by congruence. discriminate.
        -- destruct (thr s y); try lia. rewrite Hst. lia.
      * unfold s_rank; simpl. rewrite upd_same, E, Hst.
        destruct (c_st (copies s c)) eqn:Est; try lia.
        exfalso. pose proof (unsent_unrecv s c I Hus) as Hr.
        rewrite (x_settled s X c) in Hr by congruence. discriminate.
    + apply Hcov. simpl. intros y. updt t y; congruence.
  - (* LHandoff *)
    destruct (thr s t) as [|p|p|p c|p c|p|p] eqn:E; try discriminate.
    destruct (v_send _ I _ _ _ E) as (Hlt & Hus & _ & Hcl & _).
    assert (Hcc : chan_closed s = false).
    { destruct (v_closed _ I) as [H1 H2]. congruence. }
    rewrite Hcc in Hs. destruct (buf s); try discriminate. inv_some'.
    split; [|split; [exact (fun h => h)|]].
    + unfold measure; simpl.
      assert (sumf (s_rank (set_thr (set_copy s c (mark_recv (mark_sent (copies s c)))) t (SWait p c))) T
              < sumf (s_rank s) T); [|lia].
      assert (Hst : forall c0, c_st (upd (copies s) c (mark_recv (mark_sent (copies s c))) c0) = c_st (copies s c0)).
      { intros c0. updt c c0; reflexivity. }
      apply sumf_lt with t; [| |apply Hc; congruence].
      * intros y. unfold s_rank; simpl. updt t y.
        -- rewrite E. simpl. destruct (c_st (copies s c)) eqn:Est; try lia.
           exfalso. pose proof (unsent_unrecv s c I Hus) as Hr.
           rewrite (x_settled s X c) in Hr by congruence. discriminate.
        -- destruct (thr s y); try lia. rewrite Hst. lia.
      * unfold s_rank; simpl. rewrite upd_same, E, Hst.
        destruct (c_st (copies s c)) eqn:Est; try lia.
        exfalso. pose proof (unsent_unrecv s c I Hus) as Hr.
        rewrite (x_settled s X c) in Hr by congruence. discriminate.
    + apply Hcov. simpl. intros y. updt t y; congruence.
  - (* LSeeClosing *)
    destruct (closing s); try discriminate.
    destruct (thr s t) as [|p|p|p c|p c|p|p] eqn:E; try discriminate; inv_some';
      (split; [|split; [exact (fun h => h)|]];
       [apply (rank_thr_only s _ t T); simpl; auto; try congruence;
        [intros y ny; now rewrite upd_other
        |unfold s_rank; simpl; rewrite upd_same, E; try destruct (c_st (copies s c)); lia]
       |apply Hcov; simpl; intros y; updt t y; congruence]).
  - (* LSeeAcked *)
    destruct (thr s t) as [|p|p|p c|p c|p|p] eqn:E; try discriminate.
    destruct (c_st (copies s c)) eqn:Est; try discriminate. inv_some'.
    split; [|split; [exact (fun h => h)|]].
    + apply (rank_thr_only s _ t T); simpl; auto; try congruence.
      * intros y ny. now rewrite upd_other.
      * unfold s_rank; simpl. rewrite upd_same, E, Est. lia.
    + apply Hcov. simpl. intros y. updt t y; congruence.
  - (* LSeeNacked *)
    destruct (thr s t) as [|p|p|p c|p c|p|p] eqn:E; try discriminate.
    destruct (c_st (copies s c)) eqn:Est; try discriminate. inv_some'.
    split; [|split; [exact (fun h => h)|]].
    + apply (rank_thr_only s _ t T); simpl; auto; try congruence.
      * intros y ny. now rewrite upd_other.
      * unfold s_rank; simpl. rewrite upd_same, E, Est. lia.
    + apply Hcov. simpl. intros y. updt t y; congruence.
Qed.

Lemma sumf_eq f g l : (forall y, g y = f y) -> sumf g l = sumf f l.
Proof. intros E. induction l as [|y l IH]; simpl; [reflexivity|]. now rewrite E, IH. Qed.
Lemma sumf_le_add f g k l : (forall y, g y <= f y + k) -> sumf g l <= sumf f l + k * length l.
Proof. intros E. induction l as [|y l IH]; simpl; [lia|]. specialize (E y). lia. Qed.

(** the consumer's receive and Ack do not touch the measure *)
Theorem recv_ack_measure T s l s' : (l = LRecv \/ exists c, l = LAck c) -> sstep s l = Some s' ->
  measure T s' = measure T s.
Proof.
  intros Hl E. unfold measure.
  assert (Hr : forall y, s_rank s' y = s_rank s y /\ td s' = td s).
  { intros y. destruct Hl as [->|[c ->]]; simpl in E; sstep_cases E; unfold s_rank; simpl; auto;
      (split; [|reflexivity]); destruct (thr s y) as [|q|q|q c0|q c0|q|q]; try reflexivity;
      (destruct (Nat.eq_dec c0 c) as [->|N]; [rewrite upd_same; simpl|now rewrite upd_other]);
      try reflexivity.
    match goal with H : c_st (copies s c) = Unsettled |- _ => now rewrite H end. }
  destruct (Hr 0) as [_ ->]. f_equal. apply sumf_eq. intros y. apply Hr.
Qed.

(** a Nack raises the measure by at most 3 per started thread (in fact: of the one thread that
    waits for that copy) - the price of one more round of the send loop *)
Theorem nack_measure T s c s' : sstep s (LNack c) = Some s' ->
  measure T s' <= measure T s + 3 * length T.
Proof.
  intros E. unfold measure.
  assert (Hr : td s' = td s /\ forall y, s_rank s' y <= s_rank s y + 3).
  { simpl in E. sstep_cases E; (split; [reflexivity|]); intros y; unfold s_rank; simpl; try lia.
    destruct (thr s y) as [|q|q|q c0|q c0|q|q]; try lia.
    destruct (Nat.eq_dec c0 c) as [->|N]; [rewrite upd_same; simpl|rewrite upd_other by exact N; lia].
    destruct (c_st (copies s c)); lia. }
  destruct Hr as [-> Hr]. pose proof (sumf_le_add (s_rank s) (s_rank s') 3 T Hr) as H.
  rewrite <- Nat.add_assoc. apply Nat.add_le_mono_l. exact H.
Qed.

Print Assumptions moving_step_decreases.
Print Assumptions recv_ack_measure.
Print Assumptions nack_measure.
