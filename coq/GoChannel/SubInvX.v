(** Layer A of the GoChannel model (GoChannel/Sub.v): three further invariants, used by
    SubLive.v, MonitorSound.v and SubCtx.v.
      x_settled    : only a received copy can be settled (Ack / Nack come from the consumer)
      x_buf_unrecv : a buffered copy has not been received
      x_buf_nodup  : the buffer holds every copy at most once
    Theorem: [xinv_run] - they hold in every reachable state. *)
From WM Require Import Base.Prelude Message.Model GoChannel.Sub GoChannel.SubProofs.

Record XInv (s : sstate) : Prop := {
  x_settled : forall c, c_st (copies s c) <> Unsettled -> c_recv (copies s c) = true;
  x_buf_unrecv : forall c, In c (buf s) -> c_recv (copies s c) = false;
  x_buf_nodup : NoDup (buf s)
}.

Lemma xinv_init cap0 fx : XInv (sinit cap0 fx).
Proof. constructor; simpl; [congruence|tauto|constructor]. Qed.

Ltac sstep_cases E :=
  repeat match type of E with
         | context [match ?x with _ => _ end] => destruct x eqn:?; try discriminate
         | context [if ?x then _ else _] => destruct x eqn:?; try discriminate
         end; inversion E; subst; clear E.

(** a copy that has not been handed to the channel was not received *)
Lemma unsent_unrecv s c : SInv s -> c_sent (copies s c) = false -> c_recv (copies s c) = false.
Proof.
  intros I Hs. destruct (c_recv (copies s c)) eqn:Er; [|reflexivity].
  apply (v_recv _ I) in Er. congruence.
Qed.

Lemma NoDup_snoc (l : list nat) a : NoDup l -> ~ In a l -> NoDup (l ++ [a]).
Proof.
  induction l as [|b l IH]; intros Hd Hn; simpl; [constructor; [tauto|constructor]|].
  inversion Hd; subst. constructor.
  - intros Hin. apply in_app_or in Hin. destruct Hin as [Hin|[Hin|[]]]; [tauto|].
    apply Hn. now left.
  - apply IH; [assumption|]. intros Hin. apply Hn. now right.
Qed.

Lemma xinv_step s l s' : SInv s -> XInv s -> sstep s l = Some s' -> XInv s'.
Proof.
  intros I X E.
  destruct l as [t p|  | | |t|t|t|t|t|t| |c|c]; simpl in E; sstep_cases E;
    match goal with X0 : XInv ?s0 |- _ =>
      pose proof (x_settled s0 X0) as X1; pose proof (x_buf_unrecv s0 X0) as X2;
      pose proof (x_buf_nodup s0 X0) as X3 end;
    try (constructor; simpl; assumption).
  - (* alloc *)
    constructor; simpl; [| |exact X3].
    + intros c. updt (next s) c; simpl; [congruence|apply X1].
    + intros c Hin. destruct (v_buf _ I c Hin) as [Hlt _]. rewrite upd_other by lia. now apply X2.
  - (* LSendBuf *)
    match goal with E : thr s t = SSend ?p ?c |- _ =>
      destruct (v_send _ I _ _ _ E) as (Hlt & Hus & _) end.
    constructor; simpl.
    + intros c'. updt c c'; simpl; apply X1.
    + intros c' Hin. apply in_app_or in Hin. updt c c'; simpl.
      * now apply unsent_unrecv.
      * destruct Hin as [Hin|[Hin|[]]]; [now apply X2|congruence].
    + apply NoDup_snoc; [exact X3|]. intros Hin. destruct (v_buf _ I c Hin) as [_ Hs]. congruence.
  - (* LHandoff *)
    constructor; simpl; [| |exact X3].
    + intros c'. updt c c'; simpl; [reflexivity|apply X1].
    + match goal with E : buf s = [] |- _ => rewrite E end. intros c' [].
  - (* LRecv *)
    match goal with E : buf s = ?c :: ?b |- _ => rename E into Eb end.
    rewrite Eb in X2, X3. inversion X3 as [|? ? Hn Hd]; subst.
    constructor; simpl; [| |exact Hd].
    + intros c'. updt c c'; simpl; [reflexivity|apply X1].
    + intros c' Hin. rewrite upd_other by (intros ->; contradiction). apply X2. now right.
  - (* LAck *)
    constructor; simpl; [| |exact X3].
    + intros c'. updt c c'; simpl; [intros _; assumption|apply X1].
    + intros c' Hin. updt c c'; simpl; now apply X2.
  - (* LNack *)
    constructor; simpl; [| |exact X3].
    + intros c'. updt c c'; simpl; [intros _; assumption|apply X1].
    + intros c' Hin. updt c c'; simpl; now apply X2.
Qed.

Definition SX (s : sstate) : Prop := SInv s /\ XInv s.
Lemma sx_step s l s' : SX s -> sstep s l = Some s' -> SX s'.
Proof. intros [I X] E. split; [eapply sstep_inv|eapply xinv_step]; eauto. Qed.
Lemma sx_run ls : forall s, SX s -> SX (srun s ls).
Proof.
  induction ls as [|l ls IH]; intros s H; simpl; [exact H|].
  destruct (sstep s l) as [s'|] eqn:E; [|now apply IH]. apply IH. eapply sx_step; eauto.
Qed.
Theorem xinv_run cap0 fx ls : XInv (srun (sinit cap0 fx) ls).
Proof. apply sx_run. split; [apply sinv_init|apply xinv_init]. Qed.
Theorem sx_reach cap0 fx ls : SX (srun (sinit cap0 fx) ls).
Proof. apply sx_run. split; [apply sinv_init|apply xinv_init]. Qed.

Print Assumptions xinv_run.
