(** Registry protocol of the GoChannel (GoChannel/Reg.v), part 4: liveness in NON-blocking
    mode - R10 (every internal step decreases a measure) and R9 (some internal step is enabled
    as long as a started call has not returned).  In blocking mode R9 is false:
    RegWitness.d9_deadlock. *)
From WM Require Import Base.Prelude GoChannel.Reg GoChannel.RegLocks GoChannel.RegInv
                       GoChannel.RegSend.

(** the labels of the component itself (not the environment: callers, cancel, acks) *)
Definition internal (l : glabel) : bool :=
  match l with GT _ | GS_ _ | GD _ => true | _ => false end.
Definition en (s : gstate) (l : glabel) : Prop := exists s', gstep s l = Some s'.

(** * Bookkeeping invariant: the ghost list of threads; no PWait in non-blocking mode *)
Definition tp_idle (p : tpc) : bool := match p with TIdle => true | _ => false end.
Definition tp_wait (p : tpc) : bool := match p with PWait _ _ _ => true | _ => false end.

Record InvL (s : gstate) : Prop := {
  l_allthr : forall t, cnt t (allthr s) = b2n (negb (tp_idle (thr s t)));
  l_nowait : blocking s = false -> forall t, tp_wait (thr s t) = false
}.
Lemma invl_init pers blk fx : InvL (ginit pers blk fx).
Proof. constructor; simpl; auto. Qed.

Lemma l_allthr_step s l s' : InvL s -> gstep s l = Some s' ->
  forall t, cnt t (allthr s') = b2n (negb (tp_idle (thr s' t))).
Proof.
  intros I H t'. step_cases H; pose proof (l_allthr s I) as C; simpl; try apply C.
  all: upd_all; with_key ltac:(fun a => inst C a); try (inst C t'); simpl in *; auto.
Qed.
Lemma l_nowait_step s l s' : InvL s -> gstep s l = Some s' ->
  blocking s' = false -> forall t, tp_wait (thr s' t) = false.
Proof.
  intros I H Hb t'. revert Hb. step_cases H; simpl; intros Hb; pose proof (l_nowait s I Hb) as C;
    try apply C; try congruence.
  all: upd_all; simpl; auto.
Qed.
Lemma invl_step s l s' : InvL s -> gstep s l = Some s' -> InvL s'.
Proof.
  intros I H. constructor; [eapply l_allthr_step|eapply l_nowait_step]; eauto.
Qed.
Theorem reg_invl pers blk fx ls : InvL (grun (ginit pers blk fx) ls).
Proof. apply grun_ind; [exact invl_step|apply invl_init]. Qed.

(** * R10: the measure *)
Definition tp_rank (p : tpc) : nat :=
  match p with
  | TIdle => 0
  | PCheck _ ms => 2 * length ms + 8
  | PRLock _ ms => 2 * length ms + 7
  | PTLock _ ms => 2 * length ms + 6
  | PPersist _ ms => 2 * length ms + 5
  | PSend _ rem => 2 * length rem + 4
  | PWait _ _ rem => 2 * length rem + 5
  | PTUnlock _ => 2
  | PRUnlock => 1
  | PDone _ => 0
  | CLock => 5 | CBody => 4 | CWait => 3 | CNil => 2 | CUnlock => 1 | CDone => 0
  end.
(** "go teardown" (SCreate) pays for the whole teardown goroutine *)
Definition sb_rank (p : sbpc) : nat :=
  match p with
  | SNone => 0
  | SCheck _ => 30 | SWReq _ => 29 | SWAnn _ => 28 | STLock _ => 27 | SCreate _ => 26
  | SReplay _ => 5 | SRegister _ => 4 | STUnlock _ => 3 | SWUnlock _ => 2
  | SDone _ => 0 | SFail => 0
  end.
Definition td_rank (p : dpc) : nat :=
  match p with
  | DNone => 0
  | DIdle _ => 10 | DSubClose _ => 9 | DWReq _ => 8 | DWAnn _ => 7 | DTLock _ => 6
  | DRemove _ => 5 | DWgDone _ => 4 | DTUnlock _ => 3 | DWUnlock _ => 2
  | DDone => 0
  end.
Fixpoint sumf (f : nat -> nat) (l : list nat) : nat :=
  match l with [] => 0 | x :: l' => f x + sumf f l' end.
Definition measure (s : gstate) : nat :=
  sumf (fun t => tp_rank (thr s t)) (allthr s)
  + sumf (fun x => sb_rank (sb s x) + td_rank (td s x)) (allsubs s).

Lemma sumf_upd_gen f g x l : (forall y, y <> x -> g y = f y) ->
  sumf g l + cnt x l * f x = sumf f l + cnt x l * g x.
Proof.
  intros E. induction l as [|y l IH]; [reflexivity|]. simpl.
  destruct (Nat.eqb x y) eqn:Exy.
  - apply Nat.eqb_eq in Exy; subst y. lia.
  - apply Nat.eqb_neq in Exy. rewrite (E y) by congruence. lia.
Qed.
Lemma sumf_upd f g x l : cnt x l = 1 -> (forall y, y <> x -> g y = f y) ->
  sumf g l + f x = sumf f l + g x.
Proof. intros Hc E. pose proof (sumf_upd_gen f g x l E) as H. rewrite Hc in H. lia. Qed.

Lemma measure_thr s s' t : InvL s -> thr s t <> TIdle ->
  allthr s' = allthr s -> allsubs s' = allsubs s -> sb s' = sb s -> td s' = td s ->
  (forall y, y <> t -> thr s' y = thr s y) ->
  tp_rank (thr s' t) < tp_rank (thr s t) -> measure s' < measure s.
Proof.
  intros I Ht Ea Es Esb Etd Ey Hr. unfold measure. rewrite Ea, Es, Esb, Etd.
  assert (Hc : cnt t (allthr s) = 1).
  { rewrite (l_allthr s I t). destruct (thr s t); simpl; congruence. }
  pose proof (sumf_upd (fun y => tp_rank (thr s y)) (fun y => tp_rank (thr s' y)) t (allthr s) Hc) as U.
  simpl in U. assert (U' := U (fun y ny => f_equal tp_rank (Ey y ny))). lia.
Qed.
Lemma measure_sub s s' x : Inv1 s -> sb s x <> SNone ->
  allthr s' = allthr s -> allsubs s' = allsubs s -> thr s' = thr s ->
  (forall y, y <> x -> sb s' y = sb s y /\ td s' y = td s y) ->
  sb_rank (sb s' x) + td_rank (td s' x) < sb_rank (sb s x) + td_rank (td s x) ->
  measure s' < measure s.
Proof.
  intros I Hx Ea Es Et Ey Hr. unfold measure. rewrite Ea, Es, Et.
  assert (Hc : cnt x (allsubs s) = 1).
  { rewrite (r_allsubs s I x). destruct (sb s x); simpl; congruence. }
  pose proof (sumf_upd (fun y => sb_rank (sb s y) + td_rank (td s y))
                       (fun y => sb_rank (sb s' y) + td_rank (td s' y)) x (allsubs s) Hc) as U.
  simpl in U. assert (U' : sumf (fun y => sb_rank (sb s' y) + td_rank (td s' y)) (allsubs s)
                       + (sb_rank (sb s x) + td_rank (td s x))
                       = sumf (fun y => sb_rank (sb s y) + td_rank (td s y)) (allsubs s)
                         + (sb_rank (sb s' x) + td_rank (td s' x))).
  { apply U. intros y ny. destruct (Ey y ny) as [A B]. now rewrite A, B. }
  lia.
Qed.

Lemma measure_step s l s' : Inv s -> InvL s -> internal l = true -> gstep s l = Some s' ->
  measure s' < measure s.
Proof.
  intros (I0 & I1 & _) IL Hi H. step_cases H; try discriminate Hi.
  all: try (match goal with E : thr ?s0 ?t = _ |- _ => apply (measure_thr s0 _ t IL) end;
            [congruence | reflexivity | reflexivity | reflexivity | reflexivity
            | intros y ny; simpl; now rewrite upd_other
            | simpl; rewrite upd_same; ground_goal; simpl; lia]).
  all: try (with_key ltac:(fun a => apply (measure_sub _ _ a I1));
            [first [congruence | apply (started_not_none _ _ I0); congruence]
            | reflexivity | reflexivity | reflexivity
            | intros y ny; simpl; rewrite ?upd_other by exact ny; auto
            | simpl; rewrite ?upd_same; ground_goal;
              try (with_key ltac:(fun a => pose proof (o_early _ I0 a) as Oe; ground Oe;
                                           rewrite Oe by reflexivity)); simpl; lia]).
Qed.

(** every run of enabled internal steps is at most [measure s] long *)
Lemma internal_run_bounded s ls s' : Inv s -> InvL s ->
  forallb internal ls = true -> greplay s ls = Some s' -> length ls + measure s' <= measure s.
Proof.
  revert s. induction ls as [|l ls IH]; intros s I IL Hi Hr; simpl in *.
  - inversion Hr; subst. lia.
  - apply andb_true_iff in Hi as [Hl Hi]. destruct (gstep s l) as [s1|] eqn:E; [|discriminate].
    pose proof (measure_step s l s1 I IL Hl E).
    specialize (IH s1 (inv_step _ _ _ I E) (invl_step _ _ _ IL E) Hi Hr). lia.
Qed.

(** * R9: progress *)
Definition Prog (s : gstate) : Prop := exists l, internal l = true /\ en s l.

Definition tp_free (p : tpc) : bool :=
  match p with
  | PPersist _ _ | PSend _ _ | PTUnlock _ | PRUnlock | CBody | CNil | CUnlock => true
  | _ => false
  end.
Definition sb_free (p : sbpc) : bool :=
  match p with
  | SWReq _ | SCreate _ | SReplay _ | SRegister _ | STUnlock _ | SWUnlock _ => true
  | _ => false
  end.
Definition td_free (p : dpc) : bool :=
  match p with
  | DSubClose _ | DWReq _ | DRemove _ | DWgDone _ | DTUnlock _ | DWUnlock _ => true
  | _ => false
  end.

Ltac en_tac :=
  unfold en; simpl;
  repeat match goal with
         | E : ?a = _ |- context [match ?a with _ => _ end] => rewrite E
         end;
  repeat match goal with
         | |- context [match ?e with _ => _ end] => destruct e
         end; eauto.

Lemma tp_free_en s t : tp_free (thr s t) = true -> Prog s.
Proof.
  intros Hf. exists (GT t). split; [reflexivity|]. destruct (thr s t) eqn:E; try discriminate Hf; en_tac.
Qed.
Lemma sb_free_en s x : sb_free (sb s x) = true -> Prog s.
Proof.
  intros Hf. exists (GS_ x). split; [reflexivity|]. destruct (sb s x) eqn:E; try discriminate Hf; en_tac.
Qed.
Lemma td_free_en s x : td_free (td s x) = true -> Prog s.
Proof.
  intros Hf. exists (GD x). split; [reflexivity|]. destruct (td s x) eqn:E; try discriminate Hf; en_tac.
Qed.

Section Progress.
Variable s : gstate.
Hypotheses (I0 : Inv0 s) (I1 : Inv1 s) (IL : InvL s) (NB : blocking s = false).

(** whoever holds a topic lock can take its next step *)
Lemma tlock_holder_prog k o : tlock s k = Some o -> Prog s.
Proof.
  intros E. destruct o as [t|x|x].
  - apply (o_tl_P s I0) in E. apply (tp_free_en s t). pose proof (l_nowait s IL NB t) as W.
    destruct (thr s t); simpl in *; congruence.
  - apply (o_tl_S s I0) in E. apply (sb_free_en s x). destruct (sb s x); simpl in *; congruence.
  - apply (o_tl_T s I0) in E. apply (td_free_en s x). destruct (td s x); simpl in *; congruence.
Qed.
Lemma thr_tlock_prog t k ms : thr s t = PTLock k ms -> Prog s.
Proof.
  intros E. destruct (tlock s k) as [o|] eqn:El; [now apply (tlock_holder_prog k o)|].
  exists (GT t). split; [reflexivity|]. en_tac.
Qed.
Lemma sb_tlock_prog x k : sb s x = STLock k -> Prog s.
Proof.
  intros E. destruct (tlock s k) as [o|] eqn:El; [now apply (tlock_holder_prog k o)|].
  exists (GS_ x). split; [reflexivity|]. en_tac.
Qed.
Lemma td_tlock_prog x k : td s x = DTLock k -> Prog s.
Proof.
  intros E. destruct (tlock s k) as [o|] eqn:El; [now apply (tlock_holder_prog k o)|].
  exists (GD x). split; [reflexivity|]. en_tac.
Qed.

(** the writer waits at most for a topic lock *)
Lemma writer_prog o : writer s = Some o -> Prog s.
Proof.
  intros E. destruct o as [t|x|x].
  - now apply (o_writer_P s I0) in E.
  - apply (o_writer_S s I0) in E. destruct (sb s x) eqn:Es; simpl in E; try discriminate E;
      try (apply (sb_free_en s x); now rewrite Es). now apply (sb_tlock_prog x k).
  - apply (o_writer_T s I0) in E. destruct (td s x) eqn:Es; simpl in E; try discriminate E;
      try (apply (td_free_en s x); now rewrite Es). now apply (td_tlock_prog x k).
Qed.
(** so does a reader *)
Lemma reader_prog t : tp_r (thr s t) = true -> Prog s.
Proof.
  intros E. pose proof (l_nowait s IL NB t) as W.
  destruct (thr s t) eqn:Et; simpl in *; try discriminate;
    try (apply (tp_free_en s t); now rewrite Et). now apply (thr_tlock_prog t k ms).
Qed.
Lemma readers_prog : readers s <> [] -> Prog s.
Proof.
  destruct (readers s) as [|t r] eqn:E; [congruence|]. intros _. apply (reader_prog t).
  pose proof (o_readers s I0 t) as R. rewrite E in R. simpl in R. rewrite Nat.eqb_refl in R.
  destruct (tp_r (thr s t)); [reflexivity|simpl in R; lia].
Qed.
(** an announced writer: the lock is taken, or readers are draining, or it can lock *)
Lemma announced_prog o : 0 < ocnt o (wpending s) -> Prog s.
Proof.
  intros Ho. destruct (writer s) as [o'|] eqn:Ew; [now apply (writer_prog o')|].
  destruct (readers s) as [|t r] eqn:Er; [|apply readers_prog; congruence].
  assert (Hc : can_wlock s o = true).
  { unfold can_wlock. rewrite Ew, Er. now apply existsb_ocnt. }
  destruct o as [t|x|x].
  - rewrite (o_pend_P s I0 t) in Ho. lia.
  - rewrite (o_pend_S s I0 x) in Ho. destruct (sb s x) eqn:Es; simpl in Ho; try lia.
    exists (GS_ x). split; [reflexivity|]. unfold en. simpl. rewrite Es, Hc. eauto.
  - rewrite (o_pend_T s I0 x) in Ho. destruct (td s x) eqn:Es; simpl in Ho; try lia.
    exists (GD x). split; [reflexivity|]. unfold en. simpl. rewrite Es, Hc. eauto.
Qed.
Lemma sb_ann_prog x k : sb s x = SWAnn k -> Prog s.
Proof. intros E. apply (announced_prog (OwS x)). rewrite (o_pend_S s I0 x), E. simpl. lia. Qed.
Lemma td_ann_prog x k : td s x = DWAnn k -> Prog s.
Proof. intros E. apply (announced_prog (OwT x)). rewrite (o_pend_T s I0 x), E. simpl. lia. Qed.
(** a reader-to-be waits for the writer or for an announced writer *)
Lemma rlock_prog t k ms : thr s t = PRLock k ms -> Prog s.
Proof.
  intros E. destruct (writer s) as [o'|] eqn:Ew; [now apply (writer_prog o')|].
  destruct (wpending s) as [|o r] eqn:Ep.
  - exists (GT t). split; [reflexivity|]. unfold en. simpl. rewrite E. unfold can_rlock.
    rewrite Ew, Ep. eauto.
  - apply (announced_prog o). rewrite Ep, ocnt_cons, owner_eqb_refl. lia.
Qed.

(** a subscription that is counted in the WaitGroup while the Pub/Sub is closing: its
    Subscribe / replay or its teardown can step, or waits for somebody who can *)
Lemma counted_prog x : counted s x = true -> gclosing s = true -> Prog s.
Proof.
  intros Hc Hg. unfold counted in Hc. apply andb_true_iff in Hc as [Hs Hd].
  destruct (sb s x) eqn:Es; simpl in Hs; try discriminate Hs;
    try (apply (sb_free_en s x); now rewrite Es).
  - now apply (sb_ann_prog x k).
  - now apply (sb_tlock_prog x k).
  - (* Subscribe is over: the teardown *)
    pose proof (r_started s I1 x) as St. rewrite Es in St.
    destruct (td s x) eqn:Ed; simpl in Hd; try discriminate Hd;
      try (apply (td_free_en s x); now rewrite Ed).
    + specialize (St eq_refl). discriminate St.
    + exists (GD x). split; [reflexivity|]. unfold en. simpl. rewrite Ed, Hg, orb_true_r. eauto.
    + now apply (td_ann_prog x k0).
    + now apply (td_tlock_prog x k0).
Qed.
Lemma nfilter_pos_ex f l : 0 < nfilter f l -> exists x, In x l /\ f x = true.
Proof.
  induction l as [|y l IH]; [unfold nfilter; simpl; lia|]. rewrite nfilter_cons.
  destruct (f y) eqn:E; [exists y; split; [now left|exact E]|].
  simpl. intros Hp. destruct (IH Hp) as (x & Hx & Hf). exists x. split; [now right|exact Hf].
Qed.
(** whoever holds closedLock is a Close call that can step, or waits for the WaitGroup *)
Lemma close_wait_prog t : thr s t = CWait -> Prog s.
Proof.
  intros E. destruct (wg s) as [|n] eqn:Ew.
  - exists (GT t). split; [reflexivity|]. unfold en. simpl. rewrite E, Ew. eauto.
  - assert (Hg : gclosing s = true).
    { rewrite <- (o_closed s I0). apply (r_closer s I1 t). now rewrite E. }
    destruct (nfilter_pos_ex (counted s) (allsubs s)) as (x & _ & Hc);
      [rewrite <- (r_wg s I1); lia|]. now apply (counted_prog x).
Qed.
Lemma clock_holder_prog t : clock s = Some t -> Prog s.
Proof.
  intros E. apply (o_clock s I0) in E. destruct (thr s t) eqn:Et; simpl in E; try discriminate E;
    try (apply (tp_free_en s t); now rewrite Et). now apply (close_wait_prog t).
Qed.

(** what keeps the component busy *)
Definition tp_active (p : tpc) : bool :=
  match p with TIdle | PDone _ | CDone => false | _ => true end.
Definition sb_active (p : sbpc) : bool :=
  match p with SNone | SDone _ | SFail => false | _ => true end.
(** the teardown goroutine has been woken (context cancelled / Pub/Sub closing) and has not
    finished *)
Definition td_active (x : subid) : bool :=
  match td s x with
  | DNone | DDone => false
  | DIdle _ => mem x (cancelled s) || gclosing s
  | _ => true
  end.

Lemma thr_active_prog t : tp_active (thr s t) = true -> Prog s.
Proof.
  intros Ha. pose proof (l_nowait s IL NB t) as W.
  destruct (thr s t) eqn:Et; simpl in *; try discriminate;
    try (apply (tp_free_en s t); now rewrite Et).
  - destruct (clock s) as [t'|] eqn:Ec; [now apply (clock_holder_prog t')|].
    exists (GT t). split; [reflexivity|]. unfold en. simpl. rewrite Et, Ec. destruct (closed s); eauto.
  - now apply (rlock_prog t k ms).
  - now apply (thr_tlock_prog t k ms).
  - destruct (clock s) as [t'|] eqn:Ec; [now apply (clock_holder_prog t')|].
    exists (GT t). split; [reflexivity|]. unfold en. simpl. rewrite Et, Ec. eauto.
  - now apply (close_wait_prog t).
Qed.
Lemma sb_active_prog x : sb_active (sb s x) = true -> Prog s.
Proof.
  intros Ha. destruct (sb s x) eqn:Es; simpl in *; try discriminate;
    try (apply (sb_free_en s x); now rewrite Es).
  - destruct (clock s) as [t'|] eqn:Ec; [now apply (clock_holder_prog t')|].
    exists (GS_ x). split; [reflexivity|]. unfold en. simpl. rewrite Es, Ec. destruct (closed s); eauto.
  - now apply (sb_ann_prog x k).
  - now apply (sb_tlock_prog x k).
Qed.
Lemma td_active_prog x : td_active x = true -> Prog s.
Proof.
  unfold td_active. intros Ha. destruct (td s x) eqn:Ed; simpl in *; try discriminate;
    try (apply (td_free_en s x); now rewrite Ed).
  - exists (GD x). split; [reflexivity|]. unfold en. simpl. rewrite Ed, Ha. eauto.
  - now apply (td_ann_prog x k).
  - now apply (td_tlock_prog x k).
Qed.
End Progress.

Definition busy (s : gstate) : Prop :=
  (exists t, tp_active (thr s t) = true) \/ (exists x, sb_active (sb s x) = true)
  \/ (exists x, td_active s x = true).

(** the stepping thread / subscription of an enabled internal label was started *)
Lemma en_started s l : Inv0 s -> Inv1 s -> InvL s -> internal l = true -> en s l ->
  match l with
  | GT t => In t (allthr s)
  | GS_ x | GD x => In x (allsubs s)
  | _ => False
  end.
Proof.
  intros I0 I1 IL Hi [s' H]. destruct l; try discriminate Hi; simpl in H; apply cnt_pos_In.
  - rewrite (l_allthr s IL t). destruct (thr s t); try discriminate H; simpl; lia.
  - rewrite (r_allsubs s I1 s0). destruct (sb s s0); try discriminate H; simpl; lia.
  - rewrite (r_allsubs s I1 s0). pose proof (started_not_none s s0 I0) as N.
    destruct (td s s0); try discriminate H; destruct (sb s s0); simpl; try lia;
      exfalso; apply N; congruence.
Qed.

(** R9 *)
Theorem reg_progress pers fx ls : let s := grun (ginit pers false fx) ls in
  busy s -> exists l, internal l = true /\ en s l
            /\ match l with
               | GT t => In t (allthr s)
               | GS_ x | GD x => In x (allsubs s)
               | _ => False
               end.
Proof.
  intros s Hb. destruct (reg_inv pers false fx ls) as (I0 & I1 & _). fold s in I0, I1.
  pose proof (reg_invl pers false fx ls) as IL. fold s in IL.
  assert (NB : blocking s = false) by (apply (grun_cfg (ginit pers false fx) ls)).
  assert (P : Prog s).
  { destruct Hb as [[t Ht]|[[x Hx]|[x Hx]]].
    - eapply thr_active_prog; eauto.
    - eapply sb_active_prog; eauto.
    - eapply td_active_prog; eauto. }
  destruct P as (l & Hi & He). exists l. repeat split; auto. now apply en_started.
Qed.

(** R10 + R9: from a reachable state of the non-blocking Pub/Sub every run of internal steps
    is at most [measure s] long (so every maximal one is finite), and when no internal step is
    enabled any more nothing is busy: every started Publish / Close has returned, every
    Subscribe / replay is over, every woken teardown has finished. *)
Lemma greplay_grun s ls s' : greplay s ls = Some s' -> grun s ls = s'.
Proof.
  revert s. induction ls as [|l ls IH]; intros s H; simpl in *; [congruence|].
  destruct (gstep s l); [now apply IH|discriminate].
Qed.
Lemma grun_app s a b : grun s (a ++ b) = grun (grun s a) b.
Proof.
  revert s. induction a as [|l a IH]; intros s; simpl; [reflexivity|].
  destruct (gstep s l); apply IH.
Qed.
Theorem reg_terminates pers fx ls ils s' : let s := grun (ginit pers false fx) ls in
  forallb internal ils = true -> greplay s ils = Some s' ->
  length ils + measure s' <= measure s
  /\ ((forall l, internal l = true -> ~ en s' l) -> ~ busy s').
Proof.
  intros s Hi Hr. split.
  - apply internal_run_bounded; auto; [apply reg_inv|apply reg_invl].
  - intros Hstuck Hb. apply greplay_grun in Hr. unfold s in Hr. rewrite <- grun_app in Hr.
    subst s'. destruct (reg_progress pers fx (ls ++ ils) Hb) as (l & Hl & He & _).
    exact (Hstuck l Hl He).
Qed.
