(** Layer A of the GoChannel model (GoChannel/Sub.v): the delivery context (C04: "the context
    of a delivered message is live on receipt and is cancelled after the Ack").

    sendMessageToSubscriber creates the context per call
    ([ctx, cancelCtx := context.WithCancel(s.ctx); defer cancelCtx()]), the deferred cancel runs
    right before the deferred Unlock - the step SExit -> SDone of the model.  So the context of
    copy c is live exactly as long as the Sender that made c has not returned:
      ctx_live s c := thr s (c_thr (copies s c)) is not SDone.

    Theorems (s any reachable state, i.e. SX s)
      recv_ctx_live      : (a) a copy received from the buffer (LRecv) while the subscription is
                           not closing has a live context, before and after the step;
      handoff_ctx_live   : (a) a copy handed directly to the consumer (LHandoff) has a live
                           context - closing or not;
      ack_cancels_ctx    : (b) after the Sender has observed the Ack (LSeeAcked) it is at SExit,
                           its next step (the deferred chain) is enabled and cancels the context,
                           and the context is never live again;
      ctx_dead_forever   : a dead context stays dead along every run;
      closing_recv_dead_ctx : (c) witness: with s.closing closed a BUFFERED copy can be received
                           after its Sender gave up and returned - dead context on receipt; that
                           is why the acceptor (Monitor.content_step) exempts cancelled / closing
                           subscriptions. *)
From WM Require Import Base.Prelude Message.Model GoChannel.Sub GoChannel.SubProofs GoChannel.SubInvX.

Definition ctx_live (s : sstate) (c : cid) : bool :=
  match thr s (c_thr (copies s c)) with SDone _ => false | _ => true end.

(** (a) *)
Theorem recv_ctx_live s s' c b : SX s -> buf s = c :: b -> sstep s LRecv = Some s' ->
  closing s = false -> ctx_live s c = true /\ ctx_live s' c = true /\ c_recv (copies s' c) = true.
Proof.
  intros [I X] Eb E Hc. simpl in E. rewrite Eb in E. inversion E; subst s'; clear E.
  assert (Hin : In c (buf s)) by (rewrite Eb; now left).
  destruct (v_buf _ I c Hin) as [Hlt Hsent].
  pose proof (x_buf_unrecv s X c Hin) as Hur.
  assert (Hu : c_st (copies s c) = Unsettled).
  { destruct (c_st (copies s c)) eqn:Est; [reflexivity| |];
      rewrite (x_settled s X c) in Hur by congruence; discriminate. }
  assert (Ho : Out s c) by (repeat split; assumption).
  destruct (v_out _ I c Ho) as [Hcl|(t & p & Et)]; [congruence|].
  destruct (v_wait _ I _ _ _ Et) as (_ & _ & Hown).
  unfold ctx_live. simpl. rewrite upd_same. simpl. rewrite Hown, Et. auto.
Qed.

Theorem handoff_ctx_live s s' t p c : SX s -> thr s t = SSend p c ->
  sstep s (LHandoff t) = Some s' ->
  ctx_live s c = true /\ ctx_live s' c = true /\ c_recv (copies s' c) = true.
Proof.
  intros [I X] Et E. simpl in E. rewrite Et in E.
  destruct (v_send _ I _ _ _ Et) as (Hlt & Hus & Hown & Hcl & _).
  assert (Hcc : chan_closed s = false) by (destruct (v_closed _ I) as [H1 H2]; congruence).
  rewrite Hcc in E. destruct (buf s); try discriminate. inversion E; subst s'; clear E.
  unfold ctx_live. simpl. rewrite !upd_same. simpl. rewrite Hown, Et, upd_same. auto.
Qed.

(** a Sender that has returned stays returned; the owner of a copy never changes *)
Lemma done_step s l s' t p : thr s t = SDone p -> sstep s l = Some s' -> thr s' t = SDone p.
Proof.
  intros Et E.
  destruct l as [t0 q|  | | |t0|t0|t0|t0|t0|t0| |c|c]; simpl in E; sstep_cases E; simpl; auto;
    (destruct (Nat.eq_dec t t0) as [->|Nt]; [congruence|now rewrite upd_other]).
Qed.
Lemma owner_step s l s' c : c < next s -> sstep s l = Some s' ->
  c < next s' /\ c_thr (copies s' c) = c_thr (copies s c).
Proof.
  intros Hlt E.
  destruct l as [t0 q|  | | |t0|t0|t0|t0|t0|t0| |c0|c0]; simpl in E; sstep_cases E; simpl; auto;
    try (split; [assumption|]; destruct (Nat.eq_dec c c0) as [->|Nc];
         [rewrite upd_same; reflexivity|now rewrite upd_other]).
  split; [lia|]. rewrite upd_other by lia. reflexivity.
Qed.
Lemma ctx_dead_step s l s' c : c < next s -> ctx_live s c = false -> sstep s l = Some s' ->
  c < next s' /\ ctx_live s' c = false.
Proof.
  intros Hlt Hd E. destruct (owner_step s l s' c Hlt E) as [Hlt' Ho]. split; [exact Hlt'|].
  unfold ctx_live in *. rewrite Ho. destruct (thr s (c_thr (copies s c))) eqn:Et; try discriminate Hd.
  now rewrite (done_step s l s' _ _ Et E).
Qed.
Theorem ctx_dead_forever ls : forall s c, c < next s -> ctx_live s c = false ->
  ctx_live (srun s ls) c = false.
Proof.
  induction ls as [|l ls IH]; intros s c Hlt Hd; simpl; [exact Hd|].
  destruct (sstep s l) as [s'|] eqn:E; [|now apply IH].
  destruct (ctx_dead_step s l s' c Hlt Hd E). now apply IH.
Qed.

(** (b) *)
Theorem ack_cancels_ctx s t p c s1 : SInv s -> thr s t = SWait p c ->
  sstep s (LSeeAcked t) = Some s1 ->
  thr s1 t = SExit p /\ ctx_live s1 c = true
  /\ exists s2, sstep s1 (LStep t) = Some s2 /\ thr s2 t = SDone p /\ ctx_live s2 c = false
                /\ forall ls, ctx_live (srun s2 ls) c = false.
Proof.
  intros I Et E. simpl in E. rewrite Et in E.
  destruct (c_st (copies s c)); try discriminate. inversion E; subst s1; clear E.
  destruct (v_wait _ I _ _ _ Et) as (Hlt & _ & Hown).
  split; [simpl; apply upd_same|]. split; [unfold ctx_live; simpl; now rewrite Hown, upd_same|].
  eexists. split; [simpl; rewrite upd_same; reflexivity|].
  assert (Hd : ctx_live (set_thr (set_sending (set_thr s t (SExit p)) None) t (SDone p)) c = false).
  { unfold ctx_live. simpl. now rewrite Hown, upd_same. }
  split; [simpl; apply upd_same|]. split; [exact Hd|].
  intros ls. apply ctx_dead_forever; [exact Hlt|exact Hd].
Qed.

(** (c) buffer 1: the copy sits in the buffer, the subscription is cancelled, the Sender sees
    s.closing, runs its deferred cancelCtx + Unlock and returns; the consumer then receives the
    buffered copy: its context is already cancelled.  (Both variants of the loop.) *)
Definition dead_ctx_schedule : list label :=
  [LTdSpawn; LSpawn 0 10; LStep 0; LStep 0; LSendBuf 0;     (* copy 0 buffered, Sender waits *)
   LTdWake; LTdStep;                                       (* cancel: close(s.closing) *)
   LSeeClosing 0; LStep 0].                                (* Sender gives up: cancelCtx, Unlock *)
Theorem closing_recv_dead_ctx fx :
  let s := srun (sinit 1 fx) dead_ctx_schedule in
  buf s = [0] /\ closing s = true /\ thr s 0 = SDone 10 /\ ctx_live s 0 = false
  /\ exists s', sstep s LRecv = Some s' /\ c_recv (copies s' 0) = true /\ ctx_live s' 0 = false.
Proof.
  destruct fx; vm_compute; repeat split; try reflexivity; eexists; repeat split; reflexivity.
Qed.

Print Assumptions recv_ctx_live.
Print Assumptions handoff_ctx_live.
Print Assumptions ack_cancels_ctx.
Print Assumptions ctx_dead_forever.
Print Assumptions closing_recv_dead_ctx.
