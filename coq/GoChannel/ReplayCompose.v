(** C11 composed over the two layers of the GoChannel model: a registered, never-cancelled,
    always-acking subscription of a persistent Pub/Sub receives every publication of its topic
    whose snapshot was taken EXACTLY ONCE.

    Layer B (GoChannel/Reg.v, all schedules of Publish / Subscribe / cancel / Close):
      - RegSend.persistent_exactly_one : exactly one Sender for (p, x);
      - RegSend.sender_unique          : never two, any mode  (=> [sender_pubs_nodup]).
    Layer A (GoChannel/Sub.v, all schedules of the Senders, the consumer and the teardown of x):
      - SubOnce.acking_at_most_once / acking_exactly_once : with an acking consumer every
        publication is received at most once, and exactly once when its Sender has returned
        and the subscription is not closing;
      - SubLive.teardown_terminates / SubProofs.redelivery_after_nack give that Senders do
        return (not used in the statement: "the Sender has returned" is a hypothesis).
    Glue: Layer B's Sender for (p, x) IS Layer A's [LSpawn t p] on subscription x: the
    publications of the LSpawn labels of the Layer A schedule are a permutation of the
    publications that have a Sender for x in the Layer B state ([sender_pubs g x]).

    Theorems
      sender_pubs_nodup            : [sender_pubs g x] has no duplicates (reachable g).
      replay_exactly_once_composed : the statement above, in the vocabulary of the acceptor
                                     ([Monitor.count_recv] on the API history of x):
                                     exactly one Sender; received at most once; received exactly
                                     once when that Sender has returned and x is not closing.
      replay_at_most_once_composed : any mode, any subscription, acking consumer: at most once. *)
From Coq Require Import Permutation.
From WM Require Import Base.Prelude GoChannel.Reg GoChannel.RegLocks GoChannel.RegInv GoChannel.RegSend.
From WM Require GoChannel.Sub GoChannel.SubOnce GoChannel.Monitor GoChannel.MonitorSound.

(** the publications that have a Sender for subscription x *)
Definition sender_pubs (g : gstate) (x : subid) : list pubid :=
  map fst (filter (fun q => Nat.eqb (snd q) x) (senders g)).

Lemma cnt_sender_pubs l p x :
  cnt p (map fst (filter (fun q => Nat.eqb (snd q) x) l)) = scnt p x l.
Proof.
  unfold scnt. induction l as [|[q y] l IH]; simpl; [reflexivity|].
  destruct (Nat.eqb y x) eqn:Ey; simpl.
  - rewrite IH, (Nat.eqb_sym p q). destruct (Nat.eqb q p); simpl; reflexivity.
  - rewrite IH, andb_false_r. reflexivity.
Qed.

Theorem sender_pubs_nodup pers blk fx gls x : NoDup (sender_pubs (grun (ginit pers blk fx) gls) x).
Proof.
  apply cnt_le1_NoDup. intros p. unfold sender_pubs. rewrite cnt_sender_pubs.
  apply (sender_unique pers blk fx gls p x).
Qed.

Lemma in_sender_pubs g p x : 0 < nsenders g p x -> In p (sender_pubs g x).
Proof.
  intros H. apply cnt_pos_In. unfold sender_pubs. rewrite cnt_sender_pubs. exact H.
Qed.

Theorem replay_at_most_once_composed pers blk fx gls x cap0 fa ls p :
  let g := grun (ginit pers blk fx) gls in
  let h := MonitorSound.trace x (Sub.sinit cap0 fa) ls in
  Permutation (MonitorSound.spawn_pubs ls) (sender_pubs g x) ->
  SubOnce.no_nack ls = true ->
  Monitor.count_recv h x p <= 1.
Proof.
  intros g h Glue Hnn. apply SubOnce.acking_at_most_once; [exact Hnn|].
  apply (Permutation_NoDup (Permutation_sym Glue)). apply sender_pubs_nodup.
Qed.

Theorem replay_exactly_once_composed pers blk fx gls x k cap0 fa ls p :
  let g := grun (ginit pers blk fx) gls in
  let a := Sub.srun (Sub.sinit cap0 fa) ls in
  let h := MonitorSound.trace x (Sub.sinit cap0 fa) ls in
  (* glue: one Layer A Sender thread per Layer B Sender of x *)
  Permutation (MonitorSound.spawn_pubs ls) (sender_pubs g x) ->
  (* the subscription is registered in a persistent Pub/Sub; its consumer always acks *)
  persistent g = true -> In x (subs g k) -> SubOnce.no_nack ls = true ->
  (* the publication belongs to x's topic and its snapshot was taken *)
  In p (sent g) -> ptopic g p = k ->
  nsenders g p x = 1                                    (* Layer B: exactly one Sender *)
  /\ In p (MonitorSound.spawn_pubs ls)                  (* glue: it is spawned on x *)
  /\ Monitor.count_recv h x p <= 1                      (* Layer A: never received twice *)
  /\ (Sub.closing a = false ->                          (* never cancelled / closed *)
      forall t, Sub.thr a t = Sub.SDone p ->            (* the Sender has returned *)
      Monitor.count_recv h x p = 1).                    (* received exactly once *)
Proof.
  intros g a h Glue Hp Hx Hnn Hs Ht.
  assert (Hone : nsenders g p x = 1) by (apply (persistent_exactly_one pers blk fx gls x k p); auto).
  assert (Hnd : NoDup (MonitorSound.spawn_pubs ls)).
  { apply (Permutation_NoDup (Permutation_sym Glue)). apply sender_pubs_nodup. }
  split; [exact Hone|]. split.
  - apply (Permutation_in _ (Permutation_sym Glue)). apply in_sender_pubs. fold g. lia.
  - split; [now apply SubOnce.acking_at_most_once|].
    intros Hc t Et. now apply (SubOnce.acking_exactly_once x cap0 fa ls Hnn Hnd t p Hc Et).
Qed.

(** non-vacuity: the persistent run of RegWitness.replay_once (message 1 published before,
    2 during, 3 after the Subscribe of subscription 5) glued to a Layer A run of subscription 5
    with three Senders and an acking consumer: each of 1, 2, 3 received exactly once *)
Example replay_composed_example :
  let gls := [GPublish 0 0 [1]] ++ repeat (GT 0) 8 ++
             [GSubscribe 5 0; GS_ 5; GS_ 5; GS_ 5; GS_ 5; GS_ 5] ++ [GPublish 1 0 [2]; GT 1; GT 1] ++
             repeat (GS_ 5) 5 ++ repeat (GT 1) 8 ++ [GPublish 2 0 [3]] ++ repeat (GT 2) 8 in
  let g := grun (ginit true false true) gls in
  let one t p c := [Sub.LStep t; Sub.LStep t; Sub.LHandoff t; Sub.LAck c; Sub.LSeeAcked t; Sub.LStep t] in
  let ls := [Sub.LSpawn 0 1; Sub.LSpawn 1 2; Sub.LSpawn 2 3] ++ one 0 1 0 ++ one 1 2 1 ++ one 2 3 2 in
  let h := MonitorSound.trace 5 (Sub.sinit 0 true) ls in
  Permutation (MonitorSound.spawn_pubs ls) (sender_pubs g 5)
  /\ persistent g = true /\ In 5 (subs g 0) /\ SubOnce.no_nack ls = true
  /\ map (fun p => Monitor.count_recv h 5 p) [1; 2; 3] = [1; 1; 1].
Proof.
  split; [|vm_compute; repeat split; auto].
  change (Permutation [1; 2; 3] (sender_pubs (grun (ginit true false true)
    ([GPublish 0 0 [1]] ++ repeat (GT 0) 8 ++
     [GSubscribe 5 0; GS_ 5; GS_ 5; GS_ 5; GS_ 5; GS_ 5] ++ [GPublish 1 0 [2]; GT 1; GT 1] ++
     repeat (GS_ 5) 5 ++ repeat (GT 1) 8 ++ [GPublish 2 0 [3]] ++ repeat (GT 2) 8)) 5)).
  replace (sender_pubs _ 5) with (rev [1; 2; 3]) by (vm_compute; reflexivity).
  apply Permutation_rev.
Qed.

Print Assumptions sender_pubs_nodup.
Print Assumptions replay_at_most_once_composed.
Print Assumptions replay_exactly_once_composed.
