(** ONE composed system: the registry (GoChannel/Reg.v) x one per-subscription send protocol
    (GoChannel/Sub.v) for every subscription, with the synchronisations of the Go code explicit:

      Reg step                                     Sub instance x
      -----------------------------------------    ------------------------------------------
      GS_ x at SCreate   (go teardown)             LTdSpawn
      GD x at DIdle      (ctx.Done / g.closing)    LTdWake
      GD x at DSubClose  (s.Close() returns)       enabled only when td = TDone; the steps of
                                                   s.Close() are x's own LTdStep labels
      GT t at PSend k (p :: _)  (sendMessage)      LSpawn p p in every x of the snapshot subs k
                                                   (thread id := publication id - fresh, because
                                                   Reg spawns at most one Sender per pair)
      GS_ x at SReplay k (persistent replay)       LSpawn p p in x for every p of the log
      GAllAcked p        (close(ackedBySubscribers)) enabled only when the Sender of p has
                                                   returned (SDone) in every x of p's snapshot -
                                                   no longer an environment label
    All other Reg labels run alone; the Sub labels other than LSpawn / LTdSpawn / LTdWake
    (the Senders' and teardown's own steps, the consumer's LRecv / LAck / LNack) run alone in
    their instance.  [csnap p] is the snapshot taken for p (ghost of the composition).

    Theorems (c := crun (cinit pers blk fx caps fa) cls, every label list cls)
      proj_reg / proj_sub   : the Reg component of a composed run is a Reg run
                              ([grun] of the executed Reg labels), every instance is a Sub run
                              ([srun] of its executed own + synchronised labels).
      comp_reg_inv / comp_sub_sx : hence Inv0 /\ Inv1 /\ Inv2 and SInv /\ XInv hold in every
                              composed state: ALL theorems of both layers transfer.
      link_sender           : instance x has a thread for p iff Reg has a Sender (p, x); every
                              Sender of a snapshot is in the instance.
      acked_after_senders_returned : p in [acked] => in every subscription of p's snapshot the
                              Sender of p has returned (U4's contract, now a theorem).
      fifo_composed         : blocking mode: when a Publish call is about to take the snapshot
                              of p2, every subscription x that was in the snapshot of an earlier
                              message p1 of the same call has the Sender of p1 returned - with a
                              received, Acked copy of p1 unless x is closing - and has no thread
                              and no copy of p2 yet (or the Pub/Sub is closing). *)
From WM Require Import Base.Prelude GoChannel.Reg GoChannel.RegLocks GoChannel.RegInv
                       GoChannel.RegSend GoChannel.RegBlock.
From WM Require Message.Model GoChannel.Sub GoChannel.SubProofs GoChannel.SubInvX GoChannel.SubLive
                GoChannel.SubCtx GoChannel.SubSpawn GoChannel.SubFifo.

Record cstate := CS { cg : gstate; ci : subid -> Sub.sstate; csnap : pubid -> list subid }.
Inductive clabel := CReg (l : glabel) | CSub (x : subid) (l : Sub.label).

(** the Sub labels a Reg step triggers *)
Definition sync (g : gstate) (l : glabel) : list (subid * Sub.label) :=
  match l with
  | GT t => match thr g t with
            | PSend k (p :: _) => map (fun x => (x, Sub.LSpawn p p)) (subs g k)
            | _ => []
            end
  | GS_ x => match sb g x with
             | SReplay k => map (fun p => (x, Sub.LSpawn p p)) (persist_get g k)
             | SCreate _ => [(x, Sub.LTdSpawn)]
             | _ => []
             end
  | GD x => match td g x with DIdle _ => [(x, Sub.LTdWake)] | _ => [] end
  | _ => []
  end.
Fixpoint apply_sync (I : subid -> Sub.sstate) (ss : list (subid * Sub.label)) : subid -> Sub.sstate :=
  match ss with
  | [] => I
  | (x, l) :: r => apply_sync (upd I x (SubSpawn.sstep1 (I x) l)) r
  end.
Definition sender_done (s : Sub.sstate) (p : pubid) : bool :=
  match Sub.thr s p with Sub.SDone _ => true | _ => false end.
Definition guard (c : cstate) (l : glabel) : bool :=
  match l with
  | GAllAcked p => forallb (fun x => sender_done (ci c x) p) (csnap c p)
  | GD x => match td (cg c) x with
            | DSubClose _ => match Sub.td (ci c x) with Sub.TDone => true | _ => false end
            | _ => true
            end
  | _ => true
  end.
Definition snap_upd (g : gstate) (l : glabel) (sn : pubid -> list subid) : pubid -> list subid :=
  match l with
  | GT t => match thr g t with PSend k (p :: _) => upd sn p (subs g k) | _ => sn end
  | _ => sn
  end.
Definition free_sub (l : Sub.label) : bool :=
  match l with Sub.LSpawn _ _ | Sub.LTdSpawn | Sub.LTdWake => false | _ => true end.

Definition cstep (c : cstate) (l : clabel) : option cstate :=
  match l with
  | CReg l =>
      if guard c l then
        match gstep (cg c) l with
        | Some g' => Some (CS g' (apply_sync (ci c) (sync (cg c) l)) (snap_upd (cg c) l (csnap c)))
        | None => None
        end
      else None
  | CSub x l =>
      if free_sub l then
        match Sub.sstep (ci c x) l with
        | Some s' => Some (CS (cg c) (upd (ci c) x s') (csnap c))
        | None => None
        end
      else None
  end.
Definition cinit (pers blk fx : bool) (caps : subid -> nat) (fa : bool) : cstate :=
  CS (ginit pers blk fx) (fun x => Sub.sinit (caps x) fa) (fun _ => []).
Fixpoint crun (c : cstate) (ls : list clabel) : cstate :=
  match ls with
  | [] => c
  | l :: ls' => match cstep c l with Some c' => crun c' ls' | None => crun c ls' end
  end.

(** * Projections *)
Definition own (x : subid) (ss : list (subid * Sub.label)) : list Sub.label :=
  map snd (filter (fun q => Nat.eqb (fst q) x) ss).
Fixpoint reg_labels (c : cstate) (ls : list clabel) : list glabel :=
  match ls with
  | [] => []
  | l :: ls' =>
      match cstep c l with
      | Some c' => match l with CReg gl => [gl] | _ => [] end ++ reg_labels c' ls'
      | None => reg_labels c ls'
      end
  end.
Fixpoint sub_labels (x : subid) (c : cstate) (ls : list clabel) : list Sub.label :=
  match ls with
  | [] => []
  | l :: ls' =>
      match cstep c l with
      | Some c' => match l with
                   | CReg gl => own x (sync (cg c) gl)
                   | CSub y sl => if Nat.eqb y x then [sl] else []
                   end ++ sub_labels x c' ls'
      | None => sub_labels x c ls'
      end
  end.

Lemma apply_sync_proj ss : forall I x, apply_sync I ss x = Sub.srun (I x) (own x ss).
Proof.
  induction ss as [|[y l] ss IH]; intros I x; simpl; [reflexivity|].
  rewrite IH. unfold own. simpl. destruct (Nat.eqb y x) eqn:E.
  - apply Nat.eqb_eq in E. subst y. rewrite upd_same. simpl map. now rewrite SubSpawn.srun_sstep1.
  - apply Nat.eqb_neq in E. rewrite upd_other by congruence. reflexivity.
Qed.
Lemma srun_app s a b : Sub.srun s (a ++ b) = Sub.srun (Sub.srun s a) b.
Proof.
  revert s. induction a as [|l a IH]; intros s; simpl; [reflexivity|].
  destruct (Sub.sstep s l); apply IH.
Qed.

Theorem proj_reg ls : forall c, cg (crun c ls) = grun (cg c) (reg_labels c ls).
Proof.
  induction ls as [|l ls IH]; intros c; simpl; [reflexivity|].
  destruct (cstep c l) as [c'|] eqn:E; [|apply IH]. rewrite IH.
  destruct l as [gl|x sl]; simpl in E.
  - destruct (guard c gl); [|discriminate]. destruct (gstep (cg c) gl) as [g'|] eqn:Eg; [|discriminate].
    inversion E; subst c'. simpl. now rewrite Eg.
  - destruct (free_sub sl); [|discriminate]. destruct (Sub.sstep (ci c x) sl); [|discriminate].
    inversion E; subst c'. reflexivity.
Qed.
Theorem proj_sub x ls : forall c, ci (crun c ls) x = Sub.srun (ci c x) (sub_labels x c ls).
Proof.
  induction ls as [|l ls IH]; intros c; simpl; [reflexivity|].
  destruct (cstep c l) as [c'|] eqn:E; [|apply IH]. rewrite IH, srun_app. f_equal.
  destruct l as [gl|y sl]; simpl in E.
  - destruct (guard c gl); [|discriminate]. destruct (gstep (cg c) gl) as [g'|]; [|discriminate].
    inversion E; subst c'. simpl. apply apply_sync_proj.
  - destruct (free_sub sl); [|discriminate]. destruct (Sub.sstep (ci c y) sl) as [s'|] eqn:Es; [|discriminate].
    inversion E; subst c'. simpl. destruct (Nat.eqb y x) eqn:Eyx.
    + apply Nat.eqb_eq in Eyx. subst y. rewrite upd_same. simpl. now rewrite Es.
    + apply Nat.eqb_neq in Eyx. rewrite upd_other by congruence. reflexivity.
Qed.

(** every invariant of either layer holds in every composed state *)
Theorem comp_reg_inv pers blk fx caps fa cls : Inv (cg (crun (cinit pers blk fx caps fa) cls)).
Proof. rewrite proj_reg. apply reg_inv. Qed.
Theorem comp_sub_sx pers blk fx caps fa cls x :
  SubInvX.SX (ci (crun (cinit pers blk fx caps fa) cls) x).
Proof. rewrite proj_sub. apply SubInvX.sx_reach. Qed.

(** * The link between the layers *)
Record Link (c : cstate) : Prop := {
  k_none : forall x t, scnt t x (senders (cg c)) = 0 -> Sub.thr (ci c x) t = Sub.SNone;
  k_some : forall x t, 0 < scnt t x (senders (cg c)) -> Sub.thr (ci c x) t <> Sub.SNone;
  k_snap : forall p x, In x (csnap c p) -> 0 < scnt p x (senders (cg c));
  k_snap_sent : forall p x, In x (csnap c p) -> In p (sent (cg c));
  k_acked_sent : forall p, In p (acked (cg c)) -> In p (sent (cg c));
  k_acked : forall p x, In p (acked (cg c)) -> In x (csnap c p) -> sender_done (ci c x) p = true
}.

Lemma link_init pers blk fx caps fa : Link (cinit pers blk fx caps fa).
Proof. constructor; simpl; intros; try tauto; try reflexivity. unfold scnt in *. simpl in *. lia. Qed.

Lemma sender_done_step s l s' p : sender_done s p = true -> Sub.sstep s l = Some s' ->
  sender_done s' p = true.
Proof.
  unfold sender_done. intros H E. destruct (Sub.thr s p) eqn:Et; try discriminate H.
  now rewrite (SubCtx.done_step s l s' p p0 Et E).
Qed.
Lemma sender_done_run ls s p : sender_done s p = true -> sender_done (Sub.srun s ls) p = true.
Proof.
  unfold sender_done. intros H. destruct (Sub.thr s p) eqn:Et; try discriminate H.
  now rewrite (SubSpawn.done_run ls s p p0 Et).
Qed.

(** a step that leaves Senders, snapshots and SNone-ness alone *)
Lemma link_frame c g' I' : Link c ->
  senders g' = senders (cg c) -> sent g' = sent (cg c) ->
  (forall p, In p (acked g') -> In p (acked (cg c))) ->
  (forall x t, Sub.thr (I' x) t = Sub.SNone <-> Sub.thr (ci c x) t = Sub.SNone) ->
  (forall x p, sender_done (ci c x) p = true -> sender_done (I' x) p = true) ->
  Link (CS g' I' (csnap c)).
Proof.
  intros [A B C D E F] Es Et Ea Hn Hd. constructor; simpl; rewrite ?Es, ?Et.
  - intros x t H. apply Hn. now apply A.
  - intros x t H Hc. apply Hn in Hc. now apply (B x t H).
  - exact C.
  - exact D.
  - intros p Hp. apply E. now apply Ea.
  - intros p x Hp Hx. apply Hd. apply F; auto.
Qed.

Lemma own_snap p y xs :
  own y (map (fun x => (x, Sub.LSpawn p p)) xs)
  = SubSpawn.spawns (map (fun _ => p) (filter (fun x => Nat.eqb x y) xs)).
Proof.
  unfold own, SubSpawn.spawns. induction xs as [|x xs IH]; simpl; [reflexivity|].
  destruct (Nat.eqb x y); simpl; now rewrite IH.
Qed.
Lemma own_replay x y log :
  own y (map (fun p => (x, Sub.LSpawn p p)) log) = if Nat.eqb x y then SubSpawn.spawns log else [].
Proof.
  unfold own, SubSpawn.spawns. induction log as [|p log IH]; simpl; [now destruct (Nat.eqb x y)|].
  destruct (Nat.eqb x y); simpl; [now rewrite IH|exact IH].
Qed.
Lemma in_const_filter (p y : nat) (xs : list nat) : In p (map (fun _ : nat => p) (filter (fun x => Nat.eqb x y) xs)) <-> In y xs.
Proof.
  induction xs as [|x xs IH]; simpl; [tauto|]. destruct (Nat.eqb x y) eqn:E; simpl.
  - apply Nat.eqb_eq in E. subst. tauto.
  - apply Nat.eqb_neq in E. rewrite IH. split; [auto|]. intros [H|H]; [congruence|exact H].
Qed.
Lemma in_const (t p : nat) (l : list nat) : In t (map (fun _ : nat => p) l) -> t = p.
Proof. induction l; simpl; [tauto|]. intros [H|H]; [congruence|auto]. Qed.

(** the snapshot step *)
Lemma link_snapshot c t k p rem g' : Inv (cg c) -> Link c ->
  thr (cg c) t = PSend k (p :: rem) ->
  senders g' = map (fun x => (p, x)) (subs (cg c) k) ++ senders (cg c) ->
  sent g' = p :: sent (cg c) ->
  (forall q, In q (acked g') -> (q = p /\ subs (cg c) k = []) \/ In q (acked (cg c))) ->
  Link (CS g' (apply_sync (ci c) (map (fun x => (x, Sub.LSpawn p p)) (subs (cg c) k)))
           (upd (csnap c) p (subs (cg c) k))).
Proof.
  intros (I0 & I1 & I2) [A B C D E F] Et Es Esent Ea.
  assert (Hps : ~ In p (sent (cg c))) by (apply (s_pend _ I2 t p); rewrite Et; now left).
  assert (Hold : forall y, scnt p y (senders (cg c)) = 0).
  { intros y. apply (pend_no_sender (cg c) t p y I2). rewrite Et. now left. }
  set (xs := subs (cg c) k) in *.
  assert (Hthr : forall y, apply_sync (ci c) (map (fun x => (x, Sub.LSpawn p p)) xs) y
                 = Sub.srun (ci c y) (SubSpawn.spawns (map (fun _ => p) (filter (fun x => Nat.eqb x y) xs)))).
  { intros y. now rewrite apply_sync_proj, own_snap. }
  assert (Hcnt : forall q y, scnt q y (senders g')
                 = (if Nat.eqb q p then cnt y xs else 0) + scnt q y (senders (cg c))).
  { intros q y. now rewrite Es, scnt_app, scnt_map_sub. }
  constructor; simpl.
  - intros y q H. rewrite Hcnt in H. rewrite Hthr, SubSpawn.spawn_run_other; [apply A; lia|].
    right. intros Hin. pose proof (in_const _ _ _ Hin) as ->. apply in_const_filter in Hin.
    apply cnt_pos_In in Hin. rewrite Nat.eqb_refl in H. lia.
  - intros y q H. rewrite Hcnt in H. rewrite Hthr.
    destruct (scnt q y (senders (cg c))) eqn:Eo.
    + destruct (Nat.eqb q p) eqn:Eq; [|lia]. apply Nat.eqb_eq in Eq. subst q.
      rewrite SubSpawn.spawn_run_new; [discriminate|now apply A|].
      apply in_const_filter. apply cnt_pos_In. lia.
    + apply SubSpawn.started_run. apply B. lia.
  - intros q y. rewrite Hcnt. destruct (Nat.eq_dec q p) as [->|Nq].
    + rewrite upd_same, Nat.eqb_refl. intros Hin. apply cnt_pos_In in Hin. lia.
    + rewrite upd_other by exact Nq. intros Hin. apply C in Hin. lia.
  - intros q y. rewrite Esent. destruct (Nat.eq_dec q p) as [->|Nq]; [now left|].
    rewrite upd_other by exact Nq. intros Hin. right. now apply (D q y).
  - intros q Hq. rewrite Esent. destruct (Ea q Hq) as [[-> _]|Hq']; [now left|right; now apply E].
  - intros q y Hq. destruct (Nat.eq_dec q p) as [->|Nq].
    + rewrite upd_same. destruct (Ea p Hq) as [[_ He]|Hq'];
        [intros Hin; rewrite He in Hin; destruct Hin|].
      exfalso. apply Hps. now apply E.
    + rewrite upd_other by exact Nq. intros Hy. rewrite Hthr. apply sender_done_run.
      destruct (Ea q Hq) as [[-> _]|Hq']; [congruence|]. now apply F.
Qed.

(** the persistent replay step *)
Lemma link_replay c x k g' : Inv (cg c) -> Link c -> sb (cg c) x = SReplay k ->
  senders g' = map (fun p => (p, x)) (persist_get (cg c) k) ++ senders (cg c) ->
  sent g' = sent (cg c) -> acked g' = acked (cg c) ->
  Link (CS g' (apply_sync (ci c) (map (fun p => (x, Sub.LSpawn p p)) (persist_get (cg c) k)))
           (csnap c)).
Proof.
  intros (I0 & I1 & I2) [A B C D E F] Ex Es Esent Ea.
  set (log := persist_get (cg c) k) in *.
  assert (Hold : forall q, scnt q x (senders (cg c)) = 0).
  { intros q. apply (unreplayed_no_sender (cg c) q x I2). now rewrite Ex. }
  assert (Hthr : forall y, apply_sync (ci c) (map (fun p => (x, Sub.LSpawn p p)) log) y
                 = Sub.srun (ci c y) (if Nat.eqb x y then SubSpawn.spawns log else [])).
  { intros y. now rewrite apply_sync_proj, own_replay. }
  assert (Hcnt : forall q y, scnt q y (senders g')
                 = (if Nat.eqb y x then cnt q log else 0) + scnt q y (senders (cg c))).
  { intros q y. now rewrite Es, scnt_app, scnt_map_pub. }
  constructor; simpl; rewrite ?Esent, ?Ea; auto.
  - intros y q H. rewrite Hcnt in H. rewrite Hthr. destruct (Nat.eqb x y) eqn:Exy; [|apply A; lia].
    apply Nat.eqb_eq in Exy. subst y. rewrite Nat.eqb_refl in H.
    rewrite SubSpawn.spawn_run_other; [apply A; lia|]. right. intros Hin. apply cnt_pos_In in Hin. lia.
  - intros y q H. rewrite Hcnt in H. rewrite Hthr.
    destruct (scnt q y (senders (cg c))) eqn:Eo.
    + destruct (Nat.eqb y x) eqn:Eyx; [|lia]. apply Nat.eqb_eq in Eyx. subst y. rewrite Nat.eqb_refl.
      rewrite SubSpawn.spawn_run_new; [discriminate|now apply A|]. apply cnt_pos_In. lia.
    + apply SubSpawn.started_run. apply B. lia.
  - intros q y Hin. rewrite Hcnt. apply C in Hin. lia.
  - intros q y Hq Hy. rewrite Hthr. apply sender_done_run. now apply F.
Qed.

Lemma td_sync_thr s l : (l = Sub.LTdSpawn \/ l = Sub.LTdWake) ->
  Sub.thr (SubSpawn.sstep1 s l) = Sub.thr s.
Proof.
  unfold SubSpawn.sstep1. intros [->| ->]; simpl; destruct (Sub.td s); reflexivity.
Qed.

Lemma link_step c l c' : Inv (cg c) -> Link c -> cstep c l = Some c' -> Link c'.
Proof.
  intros HI L E. destruct c as [g I sn]. destruct l as [gl|y sl]; simpl in E.
  - destruct (guard (CS g I sn) gl) eqn:Eg; [|discriminate].
    destruct (gstep g gl) as [g'|] eqn:Es; [|discriminate]. inversion E; subst c'; clear E.
    simpl in HI. cbn [cg ci csnap] in *. unfold sync, snap_upd.
    step_cases' Es; simpl sync; simpl snap_upd; cbn [apply_sync];
      try (apply (link_frame (CS g I sn) _ _ L); simpl; auto; try tauto;
           try (intros x0 t0; reflexivity); fail).
    + (* GAllAcked *)
      destruct L as [A B C D F G]. constructor; simpl; auto.
      * intros q [<-|Hq]; [now apply mem_In|auto].
      * intros q x0 [<-|Hq] Hx; [|auto]. simpl in Eg. rewrite forallb_forall in Eg. now apply Eg.
    + (* snapshot, empty, blocking *)
      match goal with E : thr g ?t = PSend ?k (?p :: ?r), E2 : subs g ?k = [] |- _ =>
        pose proof (fun g' => link_snapshot (CS g I sn) t k p r g' HI L E) as Hs; simpl in Hs;
        rewrite E2 in Hs; simpl in Hs; apply Hs; simpl; auto;
        intros q [<-|Hq]; auto end.
    + match goal with E : thr g ?t = PSend ?k (?p :: ?r), E2 : subs g ?k = [] |- _ =>
        pose proof (fun g' => link_snapshot (CS g I sn) t k p r g' HI L E) as Hs; simpl in Hs;
        rewrite E2 in Hs; simpl in Hs; apply Hs; simpl; auto;
        intros q [<-|Hq]; auto end.
    + match goal with E2 : subs g _ = _ :: _ |- _ => rewrite <- E2 end.
      match goal with E : thr g ?t = PSend ?k (?p :: ?r) |- _ =>
        apply (link_snapshot (CS g I sn) t k p r _ HI L E); simpl; auto end.
    + match goal with E2 : subs g _ = _ :: _ |- _ => rewrite <- E2 end.
      match goal with E : thr g ?t = PSend ?k (?p :: ?r) |- _ =>
        apply (link_snapshot (CS g I sn) t k p r _ HI L E); simpl; auto end.
    + (* go teardown *)
      apply (link_frame (CS g I sn) _ _ L); simpl; auto.
      * intros x0 t0. destruct (Nat.eq_dec x0 s) as [->|N]; [rewrite upd_same|now rewrite upd_other].
        rewrite td_sync_thr; [reflexivity|now left].
      * intros x0 p0. unfold sender_done.
        destruct (Nat.eq_dec x0 s) as [->|N]; [rewrite upd_same|now rewrite upd_other].
        rewrite td_sync_thr; [auto|now left].
    + apply (link_frame (CS g I sn) _ _ L); simpl; auto.
      * intros x0 t0. destruct (Nat.eq_dec x0 s) as [->|N]; [rewrite upd_same|now rewrite upd_other].
        rewrite td_sync_thr; [reflexivity|now left].
      * intros x0 p0. unfold sender_done.
        destruct (Nat.eq_dec x0 s) as [->|N]; [rewrite upd_same|now rewrite upd_other].
        rewrite td_sync_thr; [auto|now left].
    + (* replay *)
      match goal with E : sb g ?x = SReplay ?k |- _ =>
        apply (link_replay (CS g I sn) x k _ HI L E); simpl; auto end.
    + (* teardown woken *)
      apply (link_frame (CS g I sn) _ _ L); simpl; auto.
      * intros x0 t0. destruct (Nat.eq_dec x0 s) as [->|N]; [rewrite upd_same|now rewrite upd_other].
        rewrite td_sync_thr; [reflexivity|now right].
      * intros x0 p0. unfold sender_done.
        destruct (Nat.eq_dec x0 s) as [->|N]; [rewrite upd_same|now rewrite upd_other].
        rewrite td_sync_thr; [auto|now right].
  - destruct (free_sub sl) eqn:Ef; [|discriminate].
    destruct (Sub.sstep (I y) sl) as [s'|] eqn:Es; [|discriminate]. inversion E; subst c'; clear E.
    apply (link_frame (CS g I sn) _ _ L); simpl; auto.
    + intros x0 t0. destruct (Nat.eq_dec x0 y) as [->|N]; [rewrite upd_same|now rewrite upd_other].
      split; intros H.
      * destruct (Sub.thr (I y) t0) eqn:Et; try reflexivity; exfalso;
          apply (SubSpawn.started_step (I y) sl s' t0 Es); congruence.
      * destruct (Sub.thr s' t0) eqn:Et; try reflexivity; exfalso;
          (destruct (SubLive.sstep_started (I y) sl s' t0 Es) as [Hn|[p0 ->]];
           [congruence|congruence|discriminate Ef]).
    + intros x0 p0. destruct (Nat.eq_dec x0 y) as [->|N]; [rewrite upd_same|now rewrite upd_other].
      intros Hd. eapply sender_done_step; eauto.
Qed.

Lemma cstep_inv c l c' : Inv (cg c) -> cstep c l = Some c' -> Inv (cg c').
Proof.
  intros HI E. destruct l as [gl|y sl]; simpl in E.
  - destruct (guard c gl); [|discriminate]. destruct (gstep (cg c) gl) as [g'|] eqn:Es; [|discriminate].
    inversion E; subst c'. simpl. eapply inv_step; eauto.
  - destruct (free_sub sl); [|discriminate]. destruct (Sub.sstep (ci c y) sl); [|discriminate].
    inversion E; subst c'. exact HI.
Qed.
Lemma link_run cls : forall c, Inv (cg c) -> Link c -> Link (crun c cls).
Proof.
  induction cls as [|l cls IH]; intros c HI L; simpl; [exact L|].
  destruct (cstep c l) as [c'|] eqn:E; [|now apply IH].
  apply IH; [eapply cstep_inv; eauto|eapply link_step; eauto].
Qed.
Theorem comp_link pers blk fx caps fa cls : Link (crun (cinit pers blk fx caps fa) cls).
Proof. apply link_run; [apply inv_init|apply link_init]. Qed.

Section Reachable.
Variables (pers blk fx : bool) (caps : subid -> nat) (fa : bool) (cls : list clabel).
Let c := crun (cinit pers blk fx caps fa) cls.

(** instance x has a thread for p exactly when the registry spawned a Sender for (p, x) *)
Theorem link_sender x p :
  (In (p, x) (senders (cg c)) <-> Sub.thr (ci c x) p <> Sub.SNone)
  /\ (In x (csnap c p) -> In (p, x) (senders (cg c))).
Proof.
  pose proof (comp_link pers blk fx caps fa cls) as L. fold c in L. split; [split|].
  - intros H. apply (k_some c L). now apply scnt_pos_In.
  - intros H. apply scnt_pos_In. destruct (scnt p x (senders (cg c))) eqn:E; [|lia].
    exfalso. apply H. now apply (k_none c L).
  - intros H. apply scnt_pos_In. now apply (k_snap c L).
Qed.

(** U4's contract as a theorem: [acked] only after every Sender of the snapshot has returned *)
Theorem acked_after_senders_returned p x :
  In p (acked (cg c)) -> In x (csnap c p) -> exists q, Sub.thr (ci c x) p = Sub.SDone q.
Proof.
  pose proof (comp_link pers blk fx caps fa cls) as L. fold c in L. intros Hp Hx.
  pose proof (k_acked c L p x Hp Hx) as Hd. unfold sender_done in Hd.
  destruct (Sub.thr (ci c x) p); try discriminate Hd. eauto.
Qed.
End Reachable.

(** per-publisher FIFO, blocking mode (with the D7 repair), state level: when thread t of the
    registry is about to take the snapshot of p2, for every earlier message p1 of the same
    Publish call and every subscription x of p1's snapshot: the Pub/Sub is closing, or the
    Sender of p1 in x has returned - leaving a received, Acked copy made by thread p1 unless x
    itself is closing - while x has no thread for p2 and no copy made by a thread p2.  (Thread
    ids are publication ids in the composition.) *)
Theorem fifo_composed pers caps fa cls t k p2 rem :
  let c := crun (cinit pers true true caps fa) cls in
  thr (cg c) t = PSend k (p2 :: rem) ->
  exists done, pmsgs (cg c) t = done ++ p2 :: rem /\
  forall p1 x, In p1 done -> In x (csnap c p1) ->
    gclosing (cg c) = true \/
    ((exists q, Sub.thr (ci c x) p1 = Sub.SDone q)
     /\ (Sub.closing (ci c x) = false ->
         exists c1, c1 < Sub.next (ci c x) /\ Sub.c_thr (Sub.copies (ci c x) c1) = p1
                    /\ Sub.c_st (Sub.copies (ci c x) c1) = Message.Model.Acked
                    /\ Sub.c_recv (Sub.copies (ci c x) c1) = true)
     /\ Sub.thr (ci c x) p2 = Sub.SNone
     /\ (forall c2, c2 < Sub.next (ci c x) -> Sub.c_thr (Sub.copies (ci c x) c2) <> p2)).
Proof.
  intros c Et.
  assert (Hg : cg c = grun (ginit pers true true) (reg_labels (cinit pers true true caps fa) cls))
    by apply proj_reg.
  pose proof (blocking_snapshot_order pers (reg_labels (cinit pers true true caps fa) cls) t k p2 rem) as B.
  simpl in B. rewrite <- Hg in B. destruct (B Et) as (done & Hsplit & Hack & Hno).
  exists done. split; [exact Hsplit|]. intros p1 x Hp1 Hx.
  destruct (Hack p1 Hp1) as [Ha|Hc]; [|now left]. right. apply mem_In in Ha.
  destruct (acked_after_senders_returned pers true true caps fa cls p1 x Ha Hx) as [q Hq]. fold c in Hq.
  pose proof (comp_link pers true true caps fa cls) as L. fold c in L.
  assert (Hs : ci c x = Sub.srun (Sub.sinit (caps x) fa) (sub_labels x (cinit pers true true caps fa) cls))
    by apply proj_sub.
  assert (Hn2 : Sub.thr (ci c x) p2 = Sub.SNone).
  { apply (k_none c L). specialize (Hno x). now rewrite nsenders_scnt in Hno. }
  split; [eauto|]. split; [|split; [exact Hn2|]].
  - intros Hcl. rewrite Hs in Hcl, Hq.
    destruct (SubFifo.returned_sender_settled _ _ _ p1 q Hcl Hq) as (c1 & H1 & H2 & H3 & H4).
    rewrite <- Hs in *. exists c1. auto.
  - intros c2 Hlt Heq.
    pose proof (SubProofs.v_cur _ (proj1 (comp_sub_sx pers true true caps fa cls x)) c2) as Hcur.
    fold c in Hcur. specialize (Hcur Hlt). rewrite Heq, Hn2 in Hcur. exact Hcur.
Qed.

(** non-vacuity (blocking mode): a Publish of message 1 to subscription 0; [GAllAcked 1] is not
    enabled while the Sender is under way and is enabled once it has returned; then the Publish
    returns *)
Example composed_run_example :
  let pre := [CReg (GSubscribe 0 0)] ++ repeat (CReg (GS_ 0)) 9 ++
             [CReg (GPublish 0 0 [1])] ++ repeat (CReg (GT 0)) 5 in
  let c1 := crun (cinit false true true (fun _ => 0) true) pre in
  let snd := [CSub 0 (Sub.LStep 1); CSub 0 (Sub.LStep 1); CSub 0 (Sub.LHandoff 1); CSub 0 (Sub.LAck 0);
              CSub 0 (Sub.LSeeAcked 1); CSub 0 (Sub.LStep 1)] in
  let c2 := crun c1 snd in
  let c3 := crun c2 ([CReg (GAllAcked 1)] ++ repeat (CReg (GT 0)) 4) in
  thr (cg c1) 0 = PWait 0 1 [] /\ csnap c1 1 = [0] /\ Sub.thr (ci c1 0) 1 = Sub.SWant 1
  /\ (match cstep c1 (CReg (GAllAcked 1)) with None => true | Some _ => false end) = true
  /\ Sub.thr (ci c2 0) 1 = Sub.SDone 1
  /\ (match cstep c2 (CReg (GAllAcked 1)) with None => false | Some _ => true end) = true
  /\ thr (cg c3) 0 = PDone true.
Proof. vm_compute. repeat split; reflexivity. Qed.

Print Assumptions proj_reg.
Print Assumptions proj_sub.
Print Assumptions link_sender.
Print Assumptions acked_after_senders_returned.
Print Assumptions fifo_composed.
