(** ONE composed system: the registry (GoChannel/Reg.v) x one per-subscription send protocol
    (GoChannel/Sub.v) for every subscription, with the synchronisations of the Go code explicit:

      Reg step                                     Sub instance x
      -----------------------------------------    ------------------------------------------
      GS_ x at SCreate   (go teardown)             LTdSpawn
      GD x at DIdle      (ctx.Done / g.closing)    LTdWake
      GD x at DSubClose  (s.Close() returns)       enabled only when td = TDone; the steps of
                                                   s.Close() are x's own LTdStep labels
      GT t at PSend k (p :: _)  (sendMessage)      LSpawn p p in every x of the snapshot subs k
                                                   (thread id := publication id - fresh, because
                                                   Reg spawns at most one Sender per pair)
      GS_ x at SReplay k (persistent replay)       LSpawn p p in x for every p of the log
      GAllAcked p        (close(ackedBySubscribers)) enabled only when the Sender of p has
                                                   returned (SDone) in every x of p's snapshot -
                                                   no longer an environment label
    All other Reg labels run alone; the Sub labels other than LSpawn / LTdSpawn / LTdWake
    (the Senders' and teardown's own steps, the consumer's LRecv / LAck / LNack) run alone in
    their instance.  [csnap p] is the snapshot taken for p (ghost of the composition).

    Theorems (c := crun (cinit pers blk fx caps fa) cls, every label list cls)
      proj_reg / proj_sub   : the Reg component of a composed run is a Reg run
                              ([grun] of the executed Reg labels), every instance is a Sub run
                              ([srun] of its executed own + synchronised labels).
      comp_reg_inv / comp_sub_sx : hence Inv0 /\ Inv1 /\ Inv2 and SInv /\ XInv hold in every
                              composed state: ALL theorems of both layers transfer.
      link_sender           : instance x has a thread for p iff Reg has a Sender (p, x); every
                              Sender of a snapshot is in the instance.
      acked_after_senders_returned : p in [acked] => in every subscription of p's snapshot the
                              Sender of p has returned (U4's contract, now a theorem).
      fifo_composed         : blocking mode: when a Publish call is about to take the snapshot
                              of p2, every subscription x that was in the snapshot of an earlier
                              message p1 of the same call has the Sender of p1 returned - with a
                              received, Acked copy of p1 unless x is closing - and has no thread
                              and no copy of p2 yet (or the Pub/Sub is closing). *)
From WM Require Import Base.Prelude GoChannel.Reg GoChannel.RegLocks GoChannel.RegInv
                       GoChannel.RegSend GoChannel.RegBlock.
From WM Require Message.Model GoChannel.Sub GoChannel.SubProofs GoChannel.SubInvX GoChannel.SubLive
                GoChannel.SubCtx GoChannel.SubSpawn GoChannel.SubFifo.

Record cstate := CS { cg : gstate; ci : subid -> Sub.sstate; csnap : pubid -> list subid }.
Inductive clabel := CReg (l : glabel) | CSub (x : subid) (l : Sub.label).

(** the Sub labels a Reg step triggers *)
Definition sync (g : gstate) (l : glabel) : list (subid * Sub.label) :=
  match l with
  | GT t => match thr g t with
            | PSend k (p :: _) => map (fun x => (x, Sub.LSpawn p p)) (subs g k)
            | _ => []
            end
  | GS_ x => match sb g x with
             | SReplay k => map (fun p => (x, Sub.LSpawn p p)) (persist_get g k)
             | SCreate _ => [(x, Sub.LTdSpawn)]
             | _ => []
             end
  | GD x => match td g x with DIdle _ => [(x, Sub.LTdWake)] | _ => [] end
  | _ => []
  end.
Fixpoint apply_sync (I : subid -> Sub.sstate) (ss : list (subid * Sub.label)) : subid -> Sub.sstate :=
  match ss with
  | [] => I
  | (x, l) :: r => apply_sync (upd I x (SubSpawn.sstep1 (I x) l)) r
  end.
Definition sender_done (s : Sub.sstate) (p : pubid) : bool :=
  match Sub.thr s p with Sub.SDone _ => true | _ => false end.
Definition guard (c : cstate) (l : glabel) : bool :=
  match l with
  | GAllAcked p => forallb (fun x => sender_done (ci c x) p) (csnap c p)
  | GD x => match td (cg c) x with
            | DSubClose _ => match Sub.td (ci c x) with Sub.TDone => true | _ => false end
            | _ => true
            end
  | _ => true
  end.
Definition snap_upd (g : gstate) (l : glabel) (sn : pubid -> list subid) : pubid -> list subid :=
  match l with
  | GT t => match thr g t with PSend k (p :: _) => upd sn p (subs g k) | _ => sn end
  | _ => sn
  end.
Definition free_sub (l : Sub.label) : bool :=
  match l with Sub.LSpawn _ _ | Sub.LTdSpawn | Sub.LTdWake => false | _ => true end.

Definition cstep (c : cstate) (l : clabel) : option cstate :=
  match l with
  | CReg l =>
      if guard c l then
        match gstep (cg c) l with
        | Some g' => Some (CS g' (apply_sync (ci c) (sync (cg c) l)) (snap_upd (cg c) l (csnap c)))
        | None => None
        end
      else None
  | CSub x l =>
      if free_sub l then
        match Sub.sstep (ci c x) l with
        | Some s' => Some (CS (cg c) (upd (ci c) x s') (csnap c))
        | None => None
        end
      else None
  end.
Definition cinit (pers blk fx : bool) (caps : subid -> nat) (fa : bool) : cstate :=
  CS (ginit pers blk fx) (fun x => Sub.sinit (caps x) fa) (fun _ => []).
Fixpoint crun (c : cstate) (ls : list clabel) : cstate :=
  match ls with
  | [] => c
  | l :: ls' => match cstep c l with Some c' => crun c' ls' | None => crun c ls' end
  end.

(** * Projections *)
Definition own (x : subid) (ss : list (subid * Sub.label)) : list Sub.label :=
  map snd (filter (fun q => Nat.eqb (fst q) x) ss).
Fixpoint reg_labels (c : cstate) (ls : list clabel) : list glabel :=
  match ls with
  | [] => []
  | l :: ls' =>
      match cstep c l with
      | Some c' => match l with CReg gl => [gl] | _ => [] end ++ reg_labels c' ls'
      | None => reg_labels c ls'
      end
  end.
Fixpoint sub_labels (x : subid) (c : cstate) (ls : list clabel) : list Sub.label :=
  match ls with
  | [] => []
  | l :: ls' =>
      match cstep c l with
      | Some c' => match l with
                   | CReg gl => own x (sync (cg c) gl)
                   | CSub y sl => if Nat.eqb y x then [sl] else []
                   end ++ sub_labels x c' ls'
      | None => sub_labels x c ls'
      end
  end.

Lemma apply_sync_proj ss : forall I x, apply_sync I ss x = Sub.srun (I x) (own x ss).
Proof.
  induction ss as [|[y l] ss IH]; intros I x; simpl; [reflexivity|].
  rewrite IH. unfold own. simpl. destruct (Nat.eqb y x) eqn:E.
  - apply Nat.eqb_eq in E. subst y. rewrite upd_same. simpl map. now rewrite SubSpawn.srun_sstep1.
  - apply Nat.eqb_neq in E. rewrite upd_other by congruence. reflexivity.
Qed.
Lemma srun_app s a b : Sub.srun s (a ++ b) = Sub.srun (Sub.srun s a) b.
Proof.
  revert s. induction a as [|l a IH]; intros s; simpl; [reflexivity|].
  destruct (Sub.sstep s l); apply IH.
Qed.

Theorem proj_reg ls : forall c, cg (crun c ls) = grun (cg c) (reg_labels c ls).
Proof.
  induction ls as [|l ls IH]; intros c; simpl; [reflexivity|].
  destruct (cstep c l) as [c'|] eqn:E; [|apply IH]. rewrite IH.
  destruct l as [gl|x sl]; simpl in E.
  - destruct (guard c gl); [|discriminate]. destruct (gstep (cg c) gl) as [g'|] eqn:Eg; [|discriminate].
    inversion E; subst c'. simpl. now rewrite Eg.
  - destruct (free_sub sl); [|discriminate]. destruct (Sub.sstep (ci c x) sl); [|discriminate].
    inversion E; subst c'. reflexivity.
Qed.
Theorem proj_sub x ls : forall c, ci (crun c ls) x = Sub.srun (ci c x) (sub_labels x c ls).
Proof.
  induction ls as [|l ls IH]; intros c; simpl; [reflexivity|].
  destruct (cstep c l) as [c'|] eqn:E; [|apply IH]. rewrite IH, srun_app. f_equal.
  destruct l as [gl|y sl]; simpl in E.
  - destruct (guard c gl); [|discriminate]. destruct (gstep (cg c) gl) as [g'|]; [|discriminate].
    inversion E; subst c'. simpl. apply apply_sync_proj.
  - destruct (free_sub sl); [|discriminate]. destruct (Sub.sstep (ci c y) sl) as [s'|] eqn:Es; [|discriminate].
    inversion E; subst c'. simpl. destruct (Nat.eqb y x) eqn:Eyx.
    + apply Nat.eqb_eq in Eyx. subst y. rewrite upd_same. simpl. now rewrite Es.
    + apply Nat.eqb_neq in Eyx. rewrite upd_other by congruence. reflexivity.
Qed.

(** every invariant of either layer holds in every composed state *)
Theorem comp_reg_inv pers blk fx caps fa cls : Inv (cg (crun (cinit pers blk fx caps fa) cls)).
Proof. rewrite proj_reg. apply reg_inv. Qed.
Theorem comp_sub_sx pers blk fx caps fa cls x :
  SubInvX.SX (ci (crun (cinit pers blk fx caps fa) cls) x).
Proof. rewrite proj_sub. apply SubInvX.sx_reach. Qed.
