(** Registry protocol of the GoChannel (GoChannel/Reg.v), part 2: the registered window, the
    WaitGroup, Close and the absence of panics ([Inv1]: R1, R5, R8). *)
From WM Require Import Base.Prelude GoChannel.Reg GoChannel.RegLocks.

(** the configuration never changes *)
Lemma gstep_cfg s l s' : gstep s l = Some s' ->
  persistent s' = persistent s /\ blocking s' = blocking s /\ fix7 s' = fix7 s.
Proof. intros H. step_cases H; simpl; auto. Qed.
Lemma grun_cfg s ls :
  persistent (grun s ls) = persistent s /\ blocking (grun s ls) = blocking s
  /\ fix7 (grun s ls) = fix7 s.
Proof.
  apply (grun_ind (fun s' => persistent s' = persistent s /\ blocking s' = blocking s
                             /\ fix7 s' = fix7 s)); [|auto].
  intros s1 l s2 (A & B & C) H. apply gstep_cfg in H. destruct H as (A' & B' & C'). 
  repeat split; congruence.
Qed.

(** * R5 / R1: the registered window, the WaitGroup, Close; no panic *)
Definition nfilter (f : nat -> bool) (l : list nat) : nat := length (filter f l).

Lemma nfilter_cons f x l : nfilter f (x :: l) = b2n (f x) + nfilter f l.
Proof. unfold nfilter. simpl. now destruct (f x). Qed.
Lemma nfilter_ext f g l : (forall y, In y l -> g y = f y) -> nfilter g l = nfilter f l.
Proof.
  induction l as [|y l IH]; intros E; [reflexivity|].
  rewrite !nfilter_cons, IH, (E y); [reflexivity|now left|]. intros z Hz. apply E. now right.
Qed.
Lemma nfilter_upd_gen f g x l : (forall y, y <> x -> g y = f y) ->
  nfilter g l + cnt x l * b2n (f x) = nfilter f l + cnt x l * b2n (g x).
Proof.
  intros E. induction l as [|y l IH]; [reflexivity|].
  rewrite !nfilter_cons. simpl cnt. destruct (Nat.eqb x y) eqn:Exy.
  - apply Nat.eqb_eq in Exy; subst y. lia.
  - apply Nat.eqb_neq in Exy. rewrite (E y) by congruence. lia.
Qed.
Lemma nfilter_upd f g x l : cnt x l = 1 -> (forall y, y <> x -> g y = f y) ->
  nfilter g l + b2n (f x) = nfilter f l + b2n (g x).
Proof. intros Hc E. pose proof (nfilter_upd_gen f g x l E) as H. rewrite Hc in H. lia. Qed.
Lemma nfilter_pos f x l : In x l -> f x = true -> 0 < nfilter f l.
Proof.
  induction l as [|y l IH]; intros Hin Hf; [destruct Hin|]. rewrite nfilter_cons.
  destruct Hin as [->|Hin]; [rewrite Hf; simpl; lia|]. specialize (IH Hin Hf). lia.
Qed.

Definition sb_topic (p : sbpc) : option topic :=
  match p with
  | SCheck k | SWReq k | SWAnn k | STLock k | SCreate k | SReplay k | SRegister k
  | STUnlock k | SWUnlock k | SDone k => Some k
  | SNone | SFail => None
  end.
Definition td_topic (p : dpc) : option topic :=
  match p with
  | DIdle k | DSubClose k | DWReq k | DWAnn k | DTLock k | DRemove k | DWgDone k
  | DTUnlock k | DWUnlock k => Some k
  | DNone | DDone => None
  end.
Definition sb_none (p : sbpc) : bool := match p with SNone => true | _ => false end.
Definition sb_done (p : sbpc) : bool := match p with SDone _ => true | _ => false end.
(** the teardown holds (or held) the write lock: the Subscribe/replay has long finished *)
Definition td_late (p : dpc) : bool :=
  match p with
  | DTLock _ | DRemove _ | DWgDone _ | DTUnlock _ | DWUnlock _ | DDone => true
  | _ => false
  end.
(** registered: addSubscriber done ... *)
Definition sb_reg (p : sbpc) : bool :=
  match p with STUnlock _ | SWUnlock _ | SDone _ => true | _ => false end.
(** ... and removeSubscriber not yet *)
Definition td_pre (p : dpc) : bool :=
  match p with
  | DIdle _ | DSubClose _ | DWReq _ | DWAnn _ | DTLock _ | DRemove _ => true
  | _ => false
  end.
Definition registered (s : gstate) (x : subid) : bool := sb_reg (sb s x) && td_pre (td s x).
(** counted in subscribersWg: after wg.Add(1) ... *)
Definition sb_cnt (p : sbpc) : bool :=
  match p with SNone | SCheck _ | SFail => false | _ => true end.
(** ... and not after wg.Done() *)
Definition td_post (p : dpc) : bool :=
  match p with DTUnlock _ | DWUnlock _ | DDone => true | _ => false end.
Definition counted (s : gstate) (x : subid) : bool := sb_cnt (sb s x) && negb (td_post (td s x)).

Definition tp_closer (p : tpc) : bool :=
  match p with CWait | CNil | CUnlock | CDone => true | _ => false end.
Definition tp_waited (p : tpc) : bool :=
  match p with CNil | CUnlock | CDone => true | _ => false end.
(** the Close call that set [closed] is still in subscribersWg.Wait() *)
Definition close_waiting (s : gstate) : bool :=
  match clock s with
  | Some t => match thr s t with CWait => true | _ => false end
  | None => false
  end.

Record Inv1 (s : gstate) : Prop := {
  r_topic_sb : forall x k, sb_topic (sb s x) = Some k -> stopic s x = k;
  r_topic_td : forall x k, td_topic (td s x) = Some k -> stopic s x = k;
  r_started : forall x, td s x = DNone -> sb_early (sb s x) = true;
  r_late : forall x, td_late (td s x) = true -> sb_done (sb s x) = true;
  r_subs : forall x k, cnt x (subs s k) = if Nat.eqb k (stopic s x) then b2n (registered s x) else 0;
  r_allsubs : forall x, cnt x (allsubs s) = b2n (negb (sb_none (sb s x)));
  r_wg : wg s = nfilter (counted s) (allsubs s);
  r_closer : forall t, tp_closer (thr s t) = true -> closed s = true;
  r_wait : closed s = true -> wg s = 0 \/ close_waiting s = true;
  r_waited : forall t, tp_waited (thr s t) = true -> wg s = 0;
  r_persist : persist s = None -> closed s = true /\ wg s = 0;
  r_nopanic : fix7 s = true -> panicked s = false
}.

Lemma inv1_init pers blk fx : Inv1 (ginit pers blk fx).
Proof.
  constructor; simpl; intros; try reflexivity; try congruence; auto.
  now destruct (Nat.eqb k 0).
Qed.

Lemma r_topic_sb_step s l s' : Inv0 s -> Inv1 s -> gstep s l = Some s' ->
  forall x k, sb_topic (sb s' x) = Some k -> stopic s' x = k.
Proof.
  intros I0 I H x' k'. step_cases H; pose proof (r_topic_sb s I) as C; simpl; try apply C.
  all: upd_all; simpl; try apply C; try congruence.
  all: with_key ltac:(fun a => pose proof (C a) as Ca; ground Ca); intros; apply Ca; congruence.
Qed.

Lemma r_topic_td_step s l s' : Inv0 s -> Inv1 s -> gstep s l = Some s' ->
  forall x k, td_topic (td s' x) = Some k -> stopic s' x = k.
Proof.
  intros I0 I H x' k'. step_cases H; pose proof (r_topic_td s I) as C; simpl; try apply C.
  all: upd_all; simpl; try apply C; try congruence.
  all: with_key ltac:(fun a => pose proof (C a) as Ca; ground Ca; 
                               pose proof (r_topic_sb s I a) as Cb; ground Cb).
  all: intros Hx; ground Hx; try congruence; try (apply Ca; congruence); try (apply Cb; congruence).
Qed.

Lemma r_started_step s l s' : Inv0 s -> Inv1 s -> gstep s l = Some s' ->
  forall x, td s' x = DNone -> sb_early (sb s' x) = true.
Proof.
  intros I0 I H x'. step_cases H; pose proof (r_started s I) as C; simpl; try apply C.
  all: with_key ltac:(fun a => inst C a); inst C x'; upd_all; simpl in *; try congruence; auto;
    intuition congruence.
Qed.

Lemma r_late_step s l s' : Inv0 s -> Inv1 s -> gstep s l = Some s' ->
  forall x, td_late (td s' x) = true -> sb_done (sb s' x) = true.
Proof.
  intros I0 I H x'. step_cases H; pose proof (r_late s I) as C; simpl; lock_facts; try apply C.
  all: upd_all; with_key ltac:(fun a => inst C a; inst (o_early s I0) a; inst (o_writer_S s I0) a);
    try (inst C x'); ground_goal; simpl in *; try congruence; auto; try solve [intuition congruence].
  (* the teardown takes the write lock: the Subscribe / replay of the same subscription has
     started it (not early) and does not hold the write lock: it is at SDone *)
  intros _. destruct (sb s s0); simpl in *; intuition congruence.
Qed.



(** while the Subscribe / replay is between "go teardown" and its last unlock, the teardown
    has not got the write lock *)
Lemma td_pre_of_mid s x : Inv1 s -> sb_early (sb s x) = false -> sb_done (sb s x) = false ->
  td_pre (td s x) = true /\ td_late (td s x) = false.
Proof.
  intros I He Hd. pose proof (r_started s I x) as A. pose proof (r_late s I x) as B.
  destruct (td s x); simpl in *; split; try reflexivity; try congruence;
    try (rewrite A in He by reflexivity; discriminate);
    try (rewrite B in Hd by reflexivity; discriminate).
Qed.

(** removeSubscriber always finds the subscriber *)
Lemma remove_finds s x k : Inv1 s -> td s x = DRemove k -> mem x (subs s k) = true.
Proof.
  intros I E. apply mem_cnt. rewrite (r_subs s I x k).
  rewrite (r_topic_td s I x k) by (rewrite E; reflexivity). rewrite Nat.eqb_refl.
  unfold registered. pose proof (r_late s I x) as L. rewrite E in *. simpl in *.
  destruct (sb s x); simpl in *; try (specialize (L eq_refl); discriminate). lia.
Qed.

Lemma r_subs_step s l s' : Inv0 s -> Inv1 s -> gstep s l = Some s' ->
  forall x k, cnt x (subs s' k) = if Nat.eqb k (stopic s' x) then b2n (registered s' x) else 0.
Proof.
  intros I0 I H x' k'. step_cases H; pose proof (r_subs s I) as C; unfold registered in *; simpl;
    try apply C.
  all: upd_all; try apply C.
  all: pose proof (fun k x => C x k) as C'; inst_all2 C'; clear C';
    repeat match goal with h : cnt _ _ = _ |- _ => progress ground h end;
    ground_goal; simpl in *; auto.
  - rewrite H. now destruct (k' =? stopic s s0), (k' =? k).
  - destruct (td_pre_of_mid s s0 I) as [Hp _]; try (rewrite Heqs1; reflexivity).
    rewrite Hp, cnt_app, H. simpl. rewrite Nat.eqb_refl.
    rewrite (r_topic_sb s I s0 k) by (rewrite Heqs1; reflexivity). rewrite Nat.eqb_refl.
    reflexivity.
  - rewrite cnt_app. simpl. apply Nat.eqb_neq in n. rewrite n, C. lia.
  - rewrite H. rewrite (r_topic_sb s I s0 k) by (rewrite Heqs1; reflexivity).
    apply Nat.eqb_neq in n. now rewrite n.
  - rewrite cnt_remove1, Nat.eqb_refl, H. rewrite andb_false_r.
    destruct (k =? stopic s s0), (sb_reg (sb s s0)); reflexivity.
  - rewrite cnt_remove1. apply Nat.eqb_neq in n. rewrite n. apply C.
  - rewrite H. rewrite (r_topic_td s I s0 k) by (rewrite Heqd; reflexivity).
    apply Nat.eqb_neq in n. now rewrite n.
  - rewrite (remove_finds s s0 k I Heqd) in Heqb. discriminate.
Qed.

Lemma r_allsubs_step s l s' : Inv0 s -> Inv1 s -> gstep s l = Some s' ->
  forall x, cnt x (allsubs s') = b2n (negb (sb_none (sb s' x))).
Proof.
  intros I0 I H x'. step_cases H; pose proof (r_allsubs s I) as C; simpl; try apply C.
  all: upd_all; with_key ltac:(fun a => inst C a); try (inst C x'); simpl in *; auto.
Qed.

Lemma wg_upd s s' x : Inv1 s -> sb s x <> SNone -> allsubs s' = allsubs s ->
  (forall y, y <> x -> sb s' y = sb s y /\ td s' y = td s y) ->
  wg s' + b2n (counted s x) = wg s + b2n (counted s' x) ->
  wg s' = nfilter (counted s') (allsubs s').
Proof.
  intros I Hx Ea Hy Hw. rewrite Ea.
  assert (Hc : cnt x (allsubs s) = 1).
  { rewrite (r_allsubs s I x). destruct (sb s x); simpl; congruence. }
  pose proof (nfilter_upd (counted s) (counted s') x (allsubs s) Hc) as U.
  rewrite <- (r_wg s I) in U. 
  assert (U' : nfilter (counted s') (allsubs s) + b2n (counted s x) = wg s + b2n (counted s' x)).
  { apply U. intros y ny. destruct (Hy y ny) as [A B]. unfold counted. now rewrite A, B. }
  lia.
Qed.

Lemma counted_wg s x : Inv1 s -> counted s x = true -> 0 < wg s.
Proof.
  intros I Hc. rewrite (r_wg s I). apply nfilter_pos with x; [|exact Hc].
  apply cnt_pos_In. rewrite (r_allsubs s I x). unfold counted in Hc.
  destruct (sb s x); simpl in *; try discriminate; lia.
Qed.

Lemma started_not_none s x : Inv0 s -> td s x <> DNone -> sb s x <> SNone.
Proof. intros I0 H E. apply H. apply (o_early s I0). now rewrite E. Qed.

(** wg.Done() never makes the counter negative *)
Lemma wgdone_pos s x k : Inv1 s -> td s x = DWgDone k -> 0 < wg s.
Proof.
  intros I E. apply (counted_wg s x I). unfold counted. rewrite E.
  pose proof (r_late s I x) as Lb. rewrite E in Lb. specialize (Lb eq_refl).
  destruct (sb s x); try discriminate Lb. reflexivity.
Qed.

Lemma r_wg_step s l s' : Inv0 s -> Inv1 s -> gstep s l = Some s' ->
  wg s' = nfilter (counted s') (allsubs s').
Proof.
  intros I0 I H. step_cases H; pose proof (r_wg s I) as C; try exact C.
  all: try (with_key ltac:(fun a => apply (wg_upd s _ a I);
         [first [congruence | apply (started_not_none s a I0); congruence] | reflexivity
         | intros y ny; simpl; rewrite ?upd_other by exact ny; auto
         | unfold counted; simpl; rewrite ?upd_same; ground_goal;
           try (pose proof (o_early s I0 a) as Oe; ground Oe; rewrite Oe by reflexivity; simpl);
           try (pose proof (r_late s I a) as La; ground La; specialize (La eq_refl);
                destruct (sb s a); try discriminate La; simpl);
           try lia])).
  - (* GSubscribe: a fresh id joins the ghost list, not counted *)
    simpl. rewrite nfilter_cons. unfold counted at 1. simpl. rewrite upd_same. simpl.
    rewrite C. apply nfilter_ext. intros y Hy. unfold counted. simpl.
    destruct (Nat.eq_dec y s0) as [->|ny]; [|now rewrite upd_other].
    apply cnt_pos_In in Hy. rewrite (r_allsubs s I s0), Heqs1 in Hy. simpl in Hy. lia.
  - rewrite (remove_finds s s0 k I Heqd) in Heqb. discriminate.
  - pose proof (wgdone_pos s s0 k I Heqd). lia.
Qed.

Lemma r_closer_step s l s' : Inv0 s -> Inv1 s -> gstep s l = Some s' ->
  forall t, tp_closer (thr s' t) = true -> closed s' = true.
Proof.
  intros I0 I H t'. step_cases H; pose proof (r_closer s I) as C; simpl; try apply C.
  all: upd_all; with_key ltac:(fun a => inst C a); try (inst C t'); simpl in *; auto; pose proof (o_closed s I0); congruence.
Qed.

Lemma r_waited_step s l s' : Inv0 s -> Inv1 s -> gstep s l = Some s' ->
  forall t, tp_waited (thr s' t) = true -> wg s' = 0.
Proof.
  intros I0 I H t'. step_cases H; pose proof (r_waited s I) as C; simpl; try apply C.
  all: upd_all; with_key ltac:(fun a => inst C a); try (inst C t'); simpl in *; auto;
    try congruence.
  - (* a second Close finds closed = true: it holds closedLock, so nobody is in Wait() *)
    intros _. destruct (r_wait s I Heqb) as [W|W]; [exact W|].
    unfold close_waiting in W. pose proof (proj2 (o_clock s I0 t)) as Hc.
    rewrite Heqt0 in Hc. rewrite (Hc eq_refl), Heqt0 in W. discriminate.
  - intros Hw. assert (Hc : tp_closer (thr s t') = true) by (destruct (thr s t'); auto; discriminate).
    apply (r_closer s I) in Hc. congruence.
  - intros Hw. apply C in Hw. congruence.
Qed.

Lemma r_wait_step s l s' : Inv0 s -> Inv1 s -> gstep s l = Some s' ->
  closed s' = true -> wg s' = 0 \/ close_waiting s' = true.
Proof.
  intros I0 I H. step_cases H; pose proof (r_wait s I) as C; unfold close_waiting in *; simpl;
    try exact C; try congruence.
  all: with_key ltac:(fun a => inst (o_clock s I0) a); clean_iff; ground C; ground_goal.
  all: try (destruct (clock s) as [t0|] eqn:Ec; [|solve [auto | simpl in *; intuition congruence]]).
  all: upd_all; ground_goal; ground C; simpl in *; auto; try solve [intuition congruence].
  intros _. right. now rewrite upd_same.
Qed.

Lemma r_persist_step s l s' : Inv0 s -> Inv1 s -> gstep s l = Some s' ->
  persist s' = None -> closed s' = true /\ wg s' = 0.
Proof.
  intros I0 I H. step_cases H; pose proof (r_persist s I) as C; simpl; try exact C; try congruence.
  all: with_key ltac:(fun a => inst (r_closer s I) a; inst (r_waited s I) a); auto;
    try solve [intuition congruence].
  all: pose proof (o_closed s I0); intros Hp; destruct (C Hp); split; try congruence; lia.
Qed.

Lemma r_nopanic_step s l s' : Inv0 s -> Inv1 s -> gstep s l = Some s' ->
  fix7 s' = true -> panicked s' = false.
Proof.
  intros I0 I H. step_cases H; pose proof (r_nopanic s I) as C; simpl; try exact C; try congruence.
  - pose proof (o_closed s I0). congruence.
  - rewrite (remove_finds s s0 k I Heqd) in Heqb. discriminate.
  - pose proof (wgdone_pos s s0 k I Heqd). lia.
Qed.

Lemma inv1_step s l s' : Inv0 s -> Inv1 s -> gstep s l = Some s' -> Inv1 s'.
Proof.
  intros I0 I H. constructor.
  - eapply r_topic_sb_step; eauto.
  - eapply r_topic_td_step; eauto.
  - eapply r_started_step; eauto.
  - eapply r_late_step; eauto.
  - eapply r_subs_step; eauto.
  - eapply r_allsubs_step; eauto.
  - eapply r_wg_step; eauto.
  - eapply r_closer_step; eauto.
  - eapply r_wait_step; eauto.
  - eapply r_waited_step; eauto.
  - eapply r_persist_step; eauto.
  - eapply r_nopanic_step; eauto.
Qed.

Definition Inv01 (s : gstate) : Prop := Inv0 s /\ Inv1 s.
Lemma inv01_step s l s' : Inv01 s -> gstep s l = Some s' -> Inv01 s'.
Proof. intros [I0 I1] H. split; [eapply inv0_step|eapply inv1_step]; eauto. Qed.
Lemma inv01_init pers blk fx : Inv01 (ginit pers blk fx).
Proof. split; [apply inv0_init|apply inv1_init]. Qed.
Theorem reg_inv01 pers blk fx ls : Inv01 (grun (ginit pers blk fx) ls).
Proof. apply grun_ind; [exact inv01_step|apply inv01_init]. Qed.

(** R1 *)
Theorem reg_no_panic pers blk ls : panicked (grun (ginit pers blk true) ls) = false.
Proof.
  destruct (reg_inv01 pers blk true ls) as [_ I]. apply (r_nopanic _ I).
  destruct (grun_cfg (ginit pers blk true) ls) as (_ & _ & E). exact E.
Qed.


