(** Layer A half of the per-publisher order in blocking mode (Monitor.mon_blocking_order).

    Layer B (RegBlock.blocking_snapshot_order): a blocking Publish call takes the snapshot of
    message p2 - i.e. spawns the Senders of p2 - only after every earlier message p1 of the call
    is in [acked] (or the Pub/Sub is closing); [acked] is set by the environment label
    GAllAcked p1 = "every Sender of p1 has returned".
    Layer A (here), for one subscription, every schedule, any consumer (Nacks allowed):
      fifo_at_spawn : at a moment when the Sender of p1 has returned on a subscription that is
        not closing, and no Sender for p2 has been spawned yet, the API history so far contains
        at least one receipt of p1 and no receipt of p2 - so on every subscription the first
        receipt of p1 precedes every receipt of p2.
      returned_sender_settled : a Sender that has returned on a non-closing subscription left an
        Acked copy (only an Ack lets it return). *)
From WM Require Import Base.Prelude Message.Model GoChannel.Sub GoChannel.SubProofs
                       GoChannel.SubInvX GoChannel.SubLive GoChannel.Monitor GoChannel.MonitorSound
                       GoChannel.SubOnce.

Lemma doneacked_run ls : forall s, SX s -> DoneAcked s -> DoneAcked (srun s ls).
Proof.
  induction ls as [|l ls IH]; intros s H D; simpl; [exact D|].
  destruct (sstep s l) as [s'|] eqn:E; [|now apply IH].
  apply IH; [eapply sx_step; eauto|]. destruct H. eapply doneacked_step; eauto.
Qed.
Lemma y_run ls1 : forall s rest, SInv s -> Y s (ls1 ++ rest) -> Y (srun s ls1) rest.
Proof.
  induction ls1 as [|l ls IH]; intros s rest I Hy; simpl in *; [exact Hy|].
  destruct (sstep s l) as [s'|] eqn:E.
  - apply IH; [eapply sstep_inv; eauto|eapply y_step; eauto].
  - apply IH; [exact I|eapply y_skip; eauto].
Qed.

Theorem returned_sender_settled cap0 fx ls t p : let s := srun (sinit cap0 fx) ls in
  closing s = false -> thr s t = SDone p ->
  exists c, c < next s /\ c_thr (copies s c) = t /\ c_st (copies s c) = Acked
            /\ c_recv (copies s c) = true.
Proof.
  intros s Hc Et.
  assert (D : DoneAcked s).
  { apply doneacked_run; [apply (sx_reach cap0 fx [])|]. intros _ t0. simpl. discriminate. }
  destruct (D Hc t) as (c & H1 & H2 & H3); [now rewrite Et|].
  exists c. repeat split; auto. apply (x_settled s (xinv_run cap0 fx ls)). congruence.
Qed.

Theorem fifo_at_spawn x cap0 fx ls p1 p2 t1 : let s := srun (sinit cap0 fx) ls in
  let h := trace x (sinit cap0 fx) ls in
  NoDup (spawn_pubs ls) ->
  closing s = false -> thr s t1 = SDone p1 ->          (* the Sender of p1 has returned *)
  (forall t, spc_pub (thr s t) <> Some p2) ->          (* no Sender of p2 yet *)
  1 <= count_recv h x p1 /\ count_recv h x p2 = 0.
Proof.
  intros s h Hnd Hc Et Hno.
  assert (Hy0 : Y (sinit cap0 fx) (ls ++ [])) by (rewrite app_nil_r; now apply y_init).
  assert (Hy : Y s []) by (apply y_run; [apply sinv_init|exact Hy0]).
  assert (Hcnt : forall p, count_recv h x p = nrecv s p).
  { intros p. pose proof (count_run x ls (sinit cap0 fx) p (sx_reach cap0 fx []) (y_init cap0 fx ls Hnd)) as Hn.
    fold s h in Hn. unfold nrecv at 2 in Hn. simpl in Hn. lia. }
  rewrite !Hcnt. split.
  - destruct (returned_sender_settled cap0 fx ls t1 p1 Hc Et) as (c & H1 & H2 & H3 & H4). fold s in H1, H2, H3, H4.
    apply (cntf_pos _ _ c H1). unfold recvd. rewrite H4.
    pose proof (y_copy s [] Hy c H1) as Hp. rewrite H2, Et in Hp. simpl in Hp.
    injection Hp as <-. now rewrite Nat.eqb_refl.
  - unfold nrecv. assert (Hall : forall c, c < next s -> recvd s p2 c = false).
    { intros c Hlt. unfold recvd. destruct (Nat.eqb (c_pub (copies s c)) p2) eqn:Ep; [|apply andb_false_r].
      apply Nat.eqb_eq in Ep. exfalso. apply (Hno (c_thr (copies s c))). rewrite <- Ep.
      now apply (y_copy s [] Hy). }
    clear - Hall. induction (next s) as [|n IH]; simpl; [reflexivity|].
    rewrite IH, Hall; auto.
Qed.

Print Assumptions returned_sender_settled.
Print Assumptions fifo_at_spawn.
