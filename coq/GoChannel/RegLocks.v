(** Registry protocol of the GoChannel (GoChannel/Reg.v), part 1: counting lemmas, the tactics
    shared by all invariant proofs, and R0 - the lock-ownership invariant [Inv0]. *)
From WM Require Import Base.Prelude GoChannel.Reg.

(** * Counting *)
Definition b2n (b : bool) : nat := if b then 1 else 0.

Fixpoint cnt (x : nat) (l : list nat) : nat :=
  match l with [] => 0 | y :: l' => (if Nat.eqb x y then 1 else 0) + cnt x l' end.

Lemma cnt_app x a b : cnt x (a ++ b) = cnt x a + cnt x b.
Proof. induction a as [|y a IH]; simpl; [reflexivity|]. rewrite IH. lia. Qed.

Lemma cnt_remove1 x y l :
  cnt x (remove1 y l) = if Nat.eqb x y then pred (cnt x l) else cnt x l.
Proof.
  induction l as [|z l IH]; simpl.
  - now destruct (Nat.eqb x y).
  - destruct (Nat.eqb y z) eqn:Eyz.
    + apply Nat.eqb_eq in Eyz; subst z. destruct (Nat.eqb x y); simpl; reflexivity.
    + simpl. rewrite IH. destruct (Nat.eqb x y) eqn:Exy; [|reflexivity].
      apply Nat.eqb_eq in Exy; subst y. rewrite Eyz. simpl.
      destruct l as [|w l]; simpl in *; [reflexivity|]. reflexivity.
Qed.

Lemma cnt_pos_In x l : 0 < cnt x l <-> In x l.
Proof.
  induction l as [|y l IH]; simpl; [split; [lia|tauto]|].
  destruct (Nat.eqb x y) eqn:E.
  - apply Nat.eqb_eq in E; subst. split; [auto|lia].
  - apply Nat.eqb_neq in E. simpl. rewrite IH. split; [auto|]. intros [?|?]; [congruence|auto].
Qed.

Lemma cnt_zero_notin x l : cnt x l = 0 <-> ~ In x l.
Proof. rewrite <- cnt_pos_In. lia. Qed.

Lemma mem_In x l : mem x l = true <-> In x l.
Proof.
  unfold mem. rewrite existsb_exists. split.
  - intros (y & Hy & E). apply Nat.eqb_eq in E. now subst.
  - intros H. exists x. split; [exact H|apply Nat.eqb_refl].
Qed.
Lemma mem_false x l : mem x l = false <-> ~ In x l.
Proof. rewrite <- mem_In. destruct (mem x l); split; congruence. Qed.

Lemma mem_cnt x l : mem x l = true <-> 0 < cnt x l.
Proof. rewrite mem_In, cnt_pos_In. reflexivity. Qed.

Lemma cnt_le1_NoDup l : (forall x, cnt x l <= 1) <-> NoDup l.
Proof.
  induction l as [|y l IH]; simpl.
  - split; [constructor|intros; lia].
  - split.
    + intros H. constructor.
      * intros Hin. apply cnt_pos_In in Hin. specialize (H y). rewrite Nat.eqb_refl in H. lia.
      * apply IH. intros x. specialize (H x). lia.
    + intros H x. inversion H as [|? ? Hn Hd]; subst.
      destruct (Nat.eqb x y) eqn:E.
      * apply Nat.eqb_eq in E; subst. apply cnt_zero_notin in Hn. lia.
      * simpl. apply IH. exact Hd.
Qed.

(** owners *)
Lemma owner_eqb_eq a b : owner_eqb a b = true <-> a = b.
Proof.
  destruct a, b; simpl; rewrite ?Nat.eqb_eq; split; intros H; try congruence; try discriminate.
Qed.
Lemma owner_eqb_refl a : owner_eqb a a = true.
Proof. now apply owner_eqb_eq. Qed.

Definition ocnt (o : owner) (l : list owner) : nat := length (filter (owner_eqb o) l).

Lemma ocnt_cons o a l : ocnt o (a :: l) = (if owner_eqb o a then 1 else 0) + ocnt o l.
Proof. unfold ocnt. simpl. now destruct (owner_eqb o a). Qed.

Lemma ocnt_remove o o' l :
  ocnt o' (remove_owner o l) = if owner_eqb o o' then 0 else ocnt o' l.
Proof.
  unfold ocnt, remove_owner. induction l as [|a l IH]; simpl.
  - now destruct (owner_eqb o o').
  - destruct (owner_eqb o a) eqn:Eoa; simpl.
    + apply owner_eqb_eq in Eoa; subst a. rewrite IH.
      destruct (owner_eqb o o') eqn:E1; [reflexivity|].
      destruct (owner_eqb o' o) eqn:E2; [|reflexivity].
      apply owner_eqb_eq in E2; subst. rewrite owner_eqb_refl in E1. discriminate.
    + destruct (owner_eqb o' a) eqn:E2; simpl; rewrite IH.
      * apply owner_eqb_eq in E2; subst a. now rewrite Eoa.
      * reflexivity.
Qed.

Lemma existsb_ocnt o l : existsb (owner_eqb o) l = true <-> 0 < ocnt o l.
Proof.
  unfold ocnt. induction l as [|a l IH]; simpl; [split; [discriminate|lia]|].
  destruct (owner_eqb o a); simpl; [split; [lia|reflexivity]|exact IH].
Qed.

(** * Case analysis on a step *)
Ltac step_cases H :=
  unfold gstep in H;
  repeat match type of H with
         | context [match ?e with _ => _ end] => destruct e eqn:?; try discriminate H
         end;
  inversion H; subst; clear H.

(** * R0: lock ownership *)
Definition tp_clock (p : tpc) : bool :=
  match p with CBody | CWait | CNil | CUnlock => true | _ => false end.
Definition tp_r (p : tpc) : bool :=
  match p with
  | PTLock _ _ | PPersist _ _ | PSend _ _ | PWait _ _ _ | PTUnlock _ | PRUnlock => true
  | _ => false
  end.
Definition tp_tl (p : tpc) : option topic :=
  match p with PPersist k _ | PSend k _ | PWait k _ _ | PTUnlock k => Some k | _ => None end.
Definition sb_ann (p : sbpc) : bool := match p with SWAnn _ => true | _ => false end.
Definition sb_w (p : sbpc) : bool :=
  match p with
  | STLock _ | SCreate _ | SReplay _ | SRegister _ | STUnlock _ | SWUnlock _ => true
  | _ => false
  end.
Definition sb_tl (p : sbpc) : option topic :=
  match p with SCreate k | SReplay k | SRegister k | STUnlock k => Some k | _ => None end.
Definition td_ann (p : dpc) : bool := match p with DWAnn _ => true | _ => false end.
Definition td_w (p : dpc) : bool :=
  match p with
  | DTLock _ | DRemove _ | DWgDone _ | DTUnlock _ | DWUnlock _ => true
  | _ => false
  end.
Definition td_tl (p : dpc) : option topic :=
  match p with DRemove k | DWgDone k | DTUnlock k => Some k | _ => None end.

(** Subscribe has not yet started the teardown goroutine *)
Definition sb_early (p : sbpc) : bool :=
  match p with
  | SNone | SCheck _ | SWReq _ | SWAnn _ | STLock _ | SCreate _ | SFail => true
  | _ => false
  end.

Record Inv0 (s : gstate) : Prop := {
  o_early : forall x, sb_early (sb s x) = true -> td s x = DNone;
  o_closed : closed s = gclosing s;
  o_clock : forall t, clock s = Some t <-> tp_clock (thr s t) = true;
  o_readers : forall t, cnt t (readers s) = b2n (tp_r (thr s t));
  o_wr : writer s <> None -> readers s = [];
  o_writer_P : forall t, writer s <> Some (OwP t);
  o_writer_S : forall x, writer s = Some (OwS x) <-> sb_w (sb s x) = true;
  o_writer_T : forall x, writer s = Some (OwT x) <-> td_w (td s x) = true;
  o_pend_P : forall t, ocnt (OwP t) (wpending s) = 0;
  o_pend_S : forall x, ocnt (OwS x) (wpending s) = b2n (sb_ann (sb s x));
  o_pend_T : forall x, ocnt (OwT x) (wpending s) = b2n (td_ann (td s x));
  o_tl_P : forall k t, tlock s k = Some (OwP t) <-> tp_tl (thr s t) = Some k;
  o_tl_S : forall k x, tlock s k = Some (OwS x) <-> sb_tl (sb s x) = Some k;
  o_tl_T : forall k x, tlock s k = Some (OwT x) <-> td_tl (td s x) = Some k
}.

Lemma inv0_init pers blk fx : Inv0 (ginit pers blk fx).
Proof.
  constructor; simpl; intros; try reflexivity; try congruence; split; congruence.
Qed.

Lemma o_closed_step s l s' : Inv0 s -> gstep s l = Some s' -> closed s' = gclosing s'.
Proof.
  intros I H. pose proof (o_closed s I). step_cases H; simpl; congruence.
Qed.

(** case split on a lookup [upd f a v b], also rewriting the corresponding [Nat.eqb] tests *)
Ltac upd_split a b :=
  destruct (Nat.eq_dec b a) as [?|?];
  [ subst b; rewrite ?upd_same, ?Nat.eqb_refl in *
  | rewrite ?upd_other in * by assumption;
    try match goal with n : b <> a |- _ =>
          rewrite ?(proj2 (Nat.eqb_neq b a) n) in *;
          try rewrite ?(proj2 (Nat.eqb_neq a b) (not_eq_sym n)) in *
        end ].
Ltac upd_all :=
  repeat match goal with
         | |- context [upd _ ?a _ ?b] => upd_split a b
         | H : context [upd _ ?a _ ?b] |- _ => upd_split a b
         end.
(** specialise a pointwise clause at the stepping thread / subscription and simplify *)
Ltac at_pc C :=
  repeat match goal with
         | E : thr _ ?t = _ |- _ =>
             lazymatch goal with
             | _ : C t |- _ => fail
             | _ => let Ct := fresh "Ct" in pose proof (C t) as Ct; rewrite ?E in Ct; simpl in Ct
             end
         | E : sb _ ?t = _ |- _ =>
             let Ct := fresh "Cs" in pose proof (C t) as Ct; rewrite ?E in Ct; simpl in Ct; revert E
         | E : td _ ?t = _ |- _ =>
             let Ct := fresh "Cd" in pose proof (C t) as Ct; rewrite ?E in Ct; simpl in Ct; revert E
         end; intros.

(** rewrite the equations produced by [step_cases] inside [h] *)
Ltac ground h :=
  repeat match goal with
         | E : thr _ _ = _ |- _ => rewrite E in h
         | E : sb _ _ = _ |- _ => rewrite E in h
         | E : td _ _ = _ |- _ => rewrite E in h
         | E : clock _ = _ |- _ => rewrite E in h
         | E : writer _ = _ |- _ => rewrite E in h
         | E : readers _ = _ |- _ => rewrite E in h
         | E : wpending _ = _ |- _ => rewrite E in h
         | E : tlock _ _ = _ |- _ => rewrite E in h
         end; simpl in h.
Ltac ground_goal :=
  repeat match goal with
         | E : thr _ _ = _ |- _ => rewrite E
         | E : sb _ _ = _ |- _ => rewrite E
         | E : td _ _ = _ |- _ => rewrite E
         | E : clock _ = _ |- _ => rewrite E
         | E : writer _ = _ |- _ => rewrite E
         | E : readers _ = _ |- _ => rewrite E
         | E : wpending _ = _ |- _ => rewrite E
         | E : tlock _ _ = _ |- _ => rewrite E
         end; simpl.
Ltac inst C v := let h := fresh "Ci" in pose proof (C v) as h; ground h.
Ltac inst2 C v w := let h := fresh "Ci" in pose proof (C v w) as h; ground h.
(** the thread / subscription that takes the step *)
Ltac with_key tac :=
  match goal with
  | E : thr _ ?t = _ |- _ => tac t
  | E : sb _ ?x = _ |- _ => tac x
  | E : td _ ?x = _ |- _ => tac x
  end.
Ltac clean_iff :=
  repeat match goal with
         | H : _ <-> true = true |- _ => apply proj2 in H; specialize (H eq_refl)
         | H : _ <-> false = true |- _ => apply proj1 in H
         | H : _ <-> Some ?k = Some ?k |- _ => apply proj2 in H; specialize (H eq_refl)
         | H : _ <-> None = Some _ |- _ => apply proj1 in H
         end.
Ltac fin := clean_iff; upd_all; simpl in *; clean_iff; intuition congruence.

Lemma o_early_step s l s' : Inv0 s -> gstep s l = Some s' ->
  forall x, sb_early (sb s' x) = true -> td s' x = DNone.
Proof.
  intros I H x'. step_cases H; pose proof (o_early s I) as C; simpl; try apply C.
  all: with_key ltac:(fun a => inst C a); inst C x'; upd_all; simpl in *; try congruence; auto;
    intuition congruence.
Qed.

Lemma o_clock_step s l s' : Inv0 s -> gstep s l = Some s' ->
  forall t, clock s' = Some t <-> tp_clock (thr s' t) = true.
Proof.
  intros I H t'. step_cases H; pose proof (o_clock s I) as C; simpl; try apply C;
    try match goal with E : thr s ?t = _ |- _ =>
      pose proof (C t) as Ct; rewrite E in Ct; simpl in Ct;
      try (pose proof (proj2 Ct eq_refl) as Ct2);
      updt t t'; simpl; try apply C; try tauto
    end.
  all: try (pose proof (C t') as Ct');
    repeat match goal with E : clock _ = _ |- _ => rewrite E in * end; intuition congruence.
Qed.

Lemma o_readers_step s l s' : Inv0 s -> gstep s l = Some s' ->
  forall t, cnt t (readers s') = b2n (tp_r (thr s' t)).
Proof.
  intros I H t'. step_cases H; pose proof (o_readers s I) as C; simpl; try apply C;
    match goal with E : thr s ?t = _ |- _ =>
      pose proof (C t) as Ct; rewrite E in Ct; simpl in Ct; rewrite ?cnt_remove1;
      upd_split t t'; simpl; try apply C; try lia
    end.
Qed.

Lemma can_rlock_true s : can_rlock s = true -> writer s = None /\ wpending s = [].
Proof. unfold can_rlock. destruct (writer s), (wpending s); intros; split; congruence. Qed.
Lemma can_wlock_true s o : can_wlock s o = true ->
  writer s = None /\ readers s = [] /\ 0 < ocnt o (wpending s).
Proof.
  unfold can_wlock. destruct (writer s), (readers s); intros H; try discriminate.
  apply existsb_ocnt in H. auto.
Qed.
Ltac lock_facts :=
  repeat match goal with
         | H : can_rlock _ = true |- _ => apply can_rlock_true in H; destruct H as [? ?]
         | H : can_wlock _ _ = true |- _ => apply can_wlock_true in H; destruct H as (? & ? & ?)
         end.

Lemma o_wr_step s l s' : Inv0 s -> gstep s l = Some s' -> writer s' <> None -> readers s' = [].
Proof.
  intros I H. step_cases H; pose proof (o_wr s I) as C; simpl; lock_facts; try apply C;
    try congruence.
  intros W. rewrite (C W). reflexivity.
Qed.

Lemma o_writer_P_step s l s' : Inv0 s -> gstep s l = Some s' -> forall t, writer s' <> Some (OwP t).
Proof.
  intros I H t'. step_cases H; pose proof (o_writer_P s I t') as C; simpl; try apply C; congruence.
Qed.

Lemma o_writer_S_step s l s' : Inv0 s -> gstep s l = Some s' ->
  forall x, writer s' = Some (OwS x) <-> sb_w (sb s' x) = true.
Proof.
  intros I H x'. step_cases H; pose proof (o_writer_S s I) as C; simpl; lock_facts; try apply C.
  all: with_key ltac:(fun a => inst C a; inst (o_writer_T s I) a); inst C x'; fin.
Qed.

Lemma o_writer_T_step s l s' : Inv0 s -> gstep s l = Some s' ->
  forall x, writer s' = Some (OwT x) <-> td_w (td s' x) = true.
Proof.
  intros I H x'. step_cases H; pose proof (o_writer_T s I) as C; simpl; lock_facts; try apply C.
  all: with_key ltac:(fun a => inst C a; inst (o_writer_S s I) a); inst C x'; fin.
Qed.

Lemma o_pend_P_step s l s' : Inv0 s -> gstep s l = Some s' ->
  forall t, ocnt (OwP t) (wpending s') = 0.
Proof.
  intros I H t'. step_cases H; pose proof (o_pend_P s I t') as C; simpl;
    rewrite ?ocnt_cons, ?ocnt_remove; simpl; try apply C.
Qed.

Lemma o_pend_S_step s l s' : Inv0 s -> gstep s l = Some s' ->
  forall x, ocnt (OwS x) (wpending s') = b2n (sb_ann (sb s' x)).
Proof.
  intros I H x'. step_cases H; pose proof (o_pend_S s I) as C; simpl;
    rewrite ?ocnt_cons, ?ocnt_remove; simpl; try apply C.
  all: with_key ltac:(fun a => inst C a; inst (o_early s I) a); inst C x'; upd_all; simpl in *;
    try lia.
  all: rewrite Ci0 in * by reflexivity; simpl in *; lia.
Qed.

Lemma o_pend_T_step s l s' : Inv0 s -> gstep s l = Some s' ->
  forall x, ocnt (OwT x) (wpending s') = b2n (td_ann (td s' x)).
Proof.
  intros I H x'. step_cases H; pose proof (o_pend_T s I) as C; simpl;
    rewrite ?ocnt_cons, ?ocnt_remove; simpl; try apply C.
  all: with_key ltac:(fun a => inst C a; inst (o_early s I) a); inst C x'; upd_all; simpl in *;
    try lia.
  all: rewrite Ci0 in * by reflexivity; simpl in *; lia.
Qed.

(** instantiate a clause [forall (k : topic) (a : nat), _] at every topic / thread in the context *)
Ltac inst_all2 C :=
  repeat match goal with
         | k1 : topic, a1 : tid |- _ =>
             let T := type of (C k1 a1) in
             lazymatch goal with _ : T |- _ => fail | _ => pose proof (C k1 a1) end
         | k1 : topic, a1 : subid |- _ =>
             let T := type of (C k1 a1) in
             lazymatch goal with _ : T |- _ => fail | _ => pose proof (C k1 a1) end
         end.
Ltac ground_all :=
  repeat match goal with h : _ <-> _ |- _ => progress ground h end.

Lemma o_tl_P_step s l s' : Inv0 s -> gstep s l = Some s' ->
  forall k t, tlock s' k = Some (OwP t) <-> tp_tl (thr s' t) = Some k.
Proof.
  intros I H k' t'. step_cases H; pose proof (o_tl_P s I) as C; simpl; try apply C.
  all: upd_all; inst_all2 C; ground_all; simpl; try tauto; try fin.
  all: inst_all2 (o_tl_S s I); inst_all2 (o_tl_T s I); ground_all; fin.
Qed.

Lemma o_tl_S_step s l s' : Inv0 s -> gstep s l = Some s' ->
  forall k x, tlock s' k = Some (OwS x) <-> sb_tl (sb s' x) = Some k.
Proof.
  intros I H k' x'. step_cases H; pose proof (o_tl_S s I) as C; simpl; try apply C.
  all: upd_all; inst_all2 C; ground_all; simpl; try tauto; try fin.
  all: inst_all2 (o_tl_P s I); inst_all2 (o_tl_T s I); ground_all; fin.
Qed.

Lemma o_tl_T_step s l s' : Inv0 s -> gstep s l = Some s' ->
  forall k x, tlock s' k = Some (OwT x) <-> td_tl (td s' x) = Some k.
Proof.
  intros I H k' x'. step_cases H; pose proof (o_tl_T s I) as C; simpl; try apply C.
  all: upd_all; inst_all2 C; ground_all; simpl; try tauto; try fin.
  all: inst_all2 (o_tl_P s I); inst_all2 (o_tl_S s I); ground_all; try fin.
  all: with_key ltac:(fun a => pose proof (o_early s I a) as He; ground He;
                               rewrite He in * by reflexivity); simpl in *; fin.
Qed.

Lemma inv0_step s l s' : Inv0 s -> gstep s l = Some s' -> Inv0 s'.
Proof.
  intros I H. constructor.
  - eapply o_early_step; eauto.
  - eapply o_closed_step; eauto.
  - eapply o_clock_step; eauto.
  - eapply o_readers_step; eauto.
  - eapply o_wr_step; eauto.
  - eapply o_writer_P_step; eauto.
  - eapply o_writer_S_step; eauto.
  - eapply o_writer_T_step; eauto.
  - eapply o_pend_P_step; eauto.
  - eapply o_pend_S_step; eauto.
  - eapply o_pend_T_step; eauto.
  - eapply o_tl_P_step; eauto.
  - eapply o_tl_S_step; eauto.
  - eapply o_tl_T_step; eauto.
Qed.

(** generic: an invariant preserved by every step holds after every run *)
Lemma grun_ind (P : gstate -> Prop) :
  (forall s l s', P s -> gstep s l = Some s' -> P s') ->
  forall ls s, P s -> P (grun s ls).
Proof.
  intros Hs ls. induction ls as [|l ls IH]; intros s Hp; simpl; [exact Hp|].
  destruct (gstep s l) eqn:E; [apply IH; eapply Hs; eauto|apply IH; exact Hp].
Qed.

Theorem reg_locks pers blk fx ls : Inv0 (grun (ginit pers blk fx) ls).
Proof. apply grun_ind; [exact inv0_step|apply inv0_init]. Qed.


