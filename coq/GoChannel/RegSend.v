(** Registry protocol of the GoChannel (GoChannel/Reg.v), part 3: Senders ([Inv2]: R2, R3, R4,
    R6) and the blocking wait (R7). *)
From WM Require Import Base.Prelude GoChannel.Reg GoChannel.RegLocks GoChannel.RegInv.

(** * Counting Senders *)
Definition scnt (p : pubid) (x : subid) (l : list (pubid * subid)) : nat :=
  length (filter (fun q => Nat.eqb (fst q) p && Nat.eqb (snd q) x) l).

Lemma nsenders_scnt s p x : nsenders s p x = scnt p x (senders s).
Proof. reflexivity. Qed.

Lemma scnt_app p x a b : scnt p x (a ++ b) = scnt p x a + scnt p x b.
Proof. unfold scnt. now rewrite filter_app, app_length. Qed.

Lemma scnt_map_sub p x p' l :
  scnt p x (map (fun y => (p', y)) l) = if Nat.eqb p p' then cnt x l else 0.
Proof.
  unfold scnt. induction l as [|y l IH]; simpl; [now destruct (Nat.eqb p p')|].
  rewrite (Nat.eqb_sym p' p), (Nat.eqb_sym y x).
  destruct (Nat.eqb p p') eqn:Ep; simpl in *.
  - destruct (Nat.eqb x y); simpl; now rewrite IH.
  - exact IH.
Qed.

Lemma scnt_map_pub p x x' l :
  scnt p x (map (fun q => (q, x')) l) = if Nat.eqb x x' then cnt p l else 0.
Proof.
  unfold scnt. induction l as [|y l IH]; simpl; [now destruct (Nat.eqb x x')|].
  rewrite (Nat.eqb_sym x' x), (Nat.eqb_sym y p).
  destruct (Nat.eqb x x') eqn:Ex; simpl in *.
  - destruct (Nat.eqb p y); simpl; now rewrite IH.
  - rewrite andb_false_r. exact IH.
Qed.

Lemma scnt_pos_In p x l : 0 < scnt p x l <-> In (p, x) l.
Proof.
  unfold scnt. induction l as [|[q y] l IH]; simpl; [split; [lia|tauto]|].
  destruct (Nat.eqb q p) eqn:Ep; simpl.
  - destruct (Nat.eqb y x) eqn:Ex; simpl.
    + apply Nat.eqb_eq in Ep, Ex. subst. split; [auto|lia].
    + apply Nat.eqb_neq in Ex. rewrite IH. split; [auto|]. intros [E|E]; [congruence|exact E].
  - apply Nat.eqb_neq in Ep. rewrite IH. split; [auto|]. intros [E|E]; [congruence|exact E].
Qed.

Lemma disjointb_spec a b : disjointb a b = true -> forall p, In p a -> ~ In p b.
Proof.
  unfold disjointb. rewrite forallb_forall. intros H p Hp Hb. specialize (H p Hp).
  apply mem_In in Hb. rewrite Hb in H. discriminate.
Qed.
Lemma nodupb_spec l : nodupb l = true -> forall p, cnt p l <= 1.
Proof.
  induction l as [|y l IH]; simpl; intros H p; [lia|].
  apply andb_true_iff in H as [H1 H2]. specialize (IH H2 p).
  destruct (Nat.eqb p y) eqn:E; [|simpl; exact IH].
  apply Nat.eqb_eq in E; subst y. apply negb_true_iff, mem_false, cnt_zero_notin in H1. lia.
Qed.
Lemma fresh_spec ms us : nodupb ms && disjointb ms us = true ->
  (forall p, cnt p ms <= 1) /\ (forall p, In p ms -> ~ In p us).
Proof.
  intros H. apply andb_true_iff in H as [H1 H2]. split; [now apply nodupb_spec|now apply disjointb_spec].
Qed.

(** * The invariant *)
(** publications of a Publish call whose snapshot is still to be taken *)
Definition pend (p : tpc) : list pubid :=
  match p with
  | PCheck _ ms | PRLock _ ms | PTLock _ ms | PPersist _ ms => ms
  | PSend _ rem | PWait _ _ rem => rem
  | _ => []
  end.
(** ... of a call that is past the append to the persisted log *)
Definition postlog (p : tpc) : list pubid :=
  match p with PSend _ rem | PWait _ _ rem => rem | _ => [] end.
Definition tp_topic (p : tpc) : option topic :=
  match p with
  | PCheck k _ | PRLock k _ | PTLock k _ | PPersist k _ | PSend k _ | PWait k _ _ => Some k
  | _ => None
  end.
(** the replay (if any) is over *)
Definition sb_replayed (p : sbpc) : bool :=
  match p with SRegister _ | STUnlock _ | SWUnlock _ | SDone _ => true | _ => false end.

Record Inv2 (s : gstate) : Prop := {
  s_sent_used : forall p, In p (sent s) -> In p (used s);
  s_pend : forall t p, In p (pend (thr s t)) ->
           pthr s p = t /\ In p (used s) /\ ~ In p (sent s)
           /\ (forall k, tp_topic (thr s t) = Some k -> ptopic s p = k);
  s_pend_nodup : forall t p, cnt p (pend (thr s t)) <= 1;
  s_snd : forall p x, 0 < scnt p x (senders s) ->
          In p (sent s) /\ sb_replayed (sb s x) = true /\ ptopic s p = stopic s x;
  s_unique : forall p x, scnt p x (senders s) <= 1;
  s_log : forall f k p, persist s = Some f -> In p (f k) ->
          In p (used s) /\ ptopic s p = k
          /\ (In p (sent s) \/ In p (postlog (thr s (pthr s p))));
  s_log_nodup : forall f k p, persist s = Some f -> cnt p (f k) <= 1;
  s_logged : persistent s = true -> forall f t p, persist s = Some f ->
             In p (postlog (thr s t)) -> In p (f (ptopic s p));
  s_sent_logged : persistent s = true -> forall f p, persist s = Some f ->
             In p (sent s) -> In p (f (ptopic s p));
  s_one : persistent s = true -> forall x p,
          sb_replayed (sb s x) = true -> td_pre (td s x) = true ->
          In p (sent s) -> ptopic s p = stopic s x -> scnt p x (senders s) = 1
}.

Lemma inv2_init pers blk fx : Inv2 (ginit pers blk fx).
Proof.
  constructor; simpl; intros; try tauto; try lia; try discriminate.
  all: try match goal with H : Some _ = Some _ |- _ => inversion H; subst; clear H end; simpl in *;
    try tauto; try lia; unfold scnt in *; simpl in *; lia.
Qed.

Lemma postlog_reader q p : In p (postlog q) -> tp_r q = true.
Proof. destruct q; simpl; tauto. Qed.
Lemma postlog_pend q p : In p (postlog q) -> In p (pend q).
Proof. destruct q; simpl; tauto. Qed.
(** while somebody holds the write lock nobody holds the read lock *)
Lemma writer_no_reader s t : Inv0 s -> writer s <> None -> tp_r (thr s t) = false.
Proof.
  intros I0 W. pose proof (o_readers s I0 t) as R. rewrite (o_wr s I0 W) in R. simpl in R.
  destruct (tp_r (thr s t)); [discriminate|reflexivity].
Qed.
Lemma sb_reg_replayed q : sb_reg q = true -> sb_replayed q = true.
Proof. destruct q; simpl; congruence. Qed.
(** members of the subscriber list *)
Lemma in_subs s x k : Inv1 s -> 0 < cnt x (subs s k) ->
  k = stopic s x /\ registered s x = true /\ cnt x (subs s k) = 1.
Proof.
  intros I1 Hc. pose proof (r_subs s I1 x k) as R. destruct (Nat.eqb k (stopic s x)) eqn:E; [|lia].
  apply Nat.eqb_eq in E. destruct (registered s x); simpl in R; [auto|lia].
Qed.

(** as [step_cases], but the snapshot [subs s k] of a PSend step stays folded when it is
    not empty *)
Ltac step_cases' H :=
  unfold gstep in H;
  repeat match type of H with
         | context [match ?e with _ => _ end] => destruct e eqn:?; try discriminate H
         end;
  cbv beta iota zeta in H;
  try match goal with E : subs _ _ = _ :: _ |- _ => rewrite <- E in H end;
  inversion H; subst; clear H.

Lemma cnt_subs_le1 s x k : Inv1 s -> cnt x (subs s k) <= 1.
Proof.
  intros I1. rewrite (r_subs s I1 x k). destruct (Nat.eqb k (stopic s x)); [|lia].
  destruct (registered s x); simpl; lia.
Qed.
(** no Sender yet for a publication whose snapshot is still to be taken *)
Lemma pend_no_sender s t p x : Inv2 s -> In p (pend (thr s t)) -> scnt p x (senders s) = 0.
Proof.
  intros I Hp. destruct (scnt p x (senders s)) eqn:E; [reflexivity|].
  destruct (s_snd s I p x) as (A & _); [lia|]. now apply (s_pend s I t p Hp) in A.
Qed.
(** no Sender yet for a subscription whose replay is still to come *)
Lemma unreplayed_no_sender s p x : Inv2 s -> sb_replayed (sb s x) = false ->
  scnt p x (senders s) = 0.
Proof.
  intros I Hr. destruct (scnt p x (senders s)) eqn:E; [reflexivity|].
  destruct (s_snd s I p x) as (_ & A & _); [lia|]. congruence.
Qed.
Lemma log_le1 s k p : Inv2 s -> cnt p (persist_get s k) <= 1.
Proof.
  intros I. unfold persist_get. destruct (persist s) as [f|] eqn:E; [|simpl; lia].
  exact (s_log_nodup s I f k p E).
Qed.

Lemma in_upd_app (f : topic -> list pubid) k ms k' p :
  In p (f k') -> In p (upd f k (f k ++ ms) k').
Proof.
  intros Hi. destruct (Nat.eq_dec k' k) as [->|Hk]; [rewrite upd_same, in_app_iff; auto|].
  now rewrite upd_other.
Qed.

(** when the snapshot for p is taken every subscription of p's topic that is past its replay
    and not yet removed is in the subscriber list: one that is not yet registered would hold
    the write lock, but the publisher holds the read lock *)
Lemma snapshot_covers s t k p rem x : Inv0 s -> Inv1 s -> Inv2 s ->
  thr s t = PSend k (p :: rem) -> sb_replayed (sb s x) = true -> td_pre (td s x) = true ->
  ptopic s p = stopic s x -> cnt x (subs s k) = 1.
Proof.
  intros I0 I1 I E Hr Hd Ht.
  destruct (s_pend s I t p) as (_ & _ & _ & B4); [rewrite E; now left|].
  rewrite (B4 k) in Ht by (now rewrite E). subst k.
  rewrite (r_subs s I1 x (stopic s x)), Nat.eqb_refl. unfold registered. rewrite Hd.
  destruct (sb s x) eqn:Es; simpl in Hr; try discriminate Hr; simpl; try reflexivity.
  assert (W : writer s = Some (OwS x)) by (apply (o_writer_S s I0); now rewrite Es).
  pose proof (writer_no_reader s t I0) as R. rewrite E, W in R. simpl in R.
  discriminate R. congruence.
Qed.
(** the log is there as long as a subscription is counted in the WaitGroup *)
Lemma counted_log s x : Inv1 s -> counted s x = true -> exists f, persist s = Some f.
Proof.
  intros I1 Hc. destruct (persist s) as [f|] eqn:E; [eauto|].
  destruct (r_persist s I1 E) as [_ W]. apply (counted_wg s x I1) in Hc. lia.
Qed.

Section Step.
Variables (s : gstate) (l : glabel) (s' : gstate).
Hypotheses (I0 : Inv0 s) (I1 : Inv1 s) (I : Inv2 s) (H : gstep s l = Some s').

Lemma s_sent_used_step : forall p, In p (sent s') -> In p (used s').
Proof.
  intros p'. revert H. intros H'. step_cases H'; pose proof (s_sent_used s I) as C; simpl; try apply C.
  all: try (rewrite in_app_iff; solve [auto]).
  all: intros [<-|Hp]; [|auto];
      match goal with E : thr s ?t = _ |- _ => apply (s_pend s I t); rewrite E; now left end.
Qed.

Lemma s_pend_step : forall t p, In p (pend (thr s' t)) ->
  pthr s' p = t /\ In p (used s') /\ ~ In p (sent s')
  /\ (forall k, tp_topic (thr s' t) = Some k -> ptopic s' p = k).
Proof.
  intros t' p'. revert H. intros H'. step_cases H'; pose proof (s_pend s I) as C; simpl; try apply C.
  all: upd_all; simpl; try apply C; try tauto.
  all: with_key ltac:(fun a => pose proof (C a p') as Ca; ground Ca; simpl in Ca);
    try (intros Hp; destruct Ca as (A1 & A2 & A3 & A4); [solve [auto]|]; repeat split; auto).
  all: try match goal with F : nodupb _ && disjointb _ _ = true |- _ =>
             destruct (fresh_spec _ _ F) as [F1 F2] end.
  1: { (* GPublish, the new thread *)
    intros Hp. apply mem_In in Hp as Hm. rewrite Hm. repeat split; auto.
    + rewrite in_app_iff; auto.
    + intros Hs. apply (F2 p' Hp). now apply (s_sent_used s I).
    + congruence. }
  1: { (* GPublish, the others *)
    intros Hp. destruct (C t' p' Hp) as (A1 & A2 & A3 & A4).
    assert (Hm : mem p' ms = false) by (apply mem_false; intro; eapply F2; eauto).
    rewrite Hm. repeat split; auto. rewrite in_app_iff; auto. }
  (* the snapshot of p is taken *)
  all: match goal with E : thr s ?t = PSend _ (?p :: _) |- _ =>
         pose proof (s_pend_nodup s I t p) as Hn; rewrite E in Hn; simpl in Hn;
         rewrite Nat.eqb_refl in Hn;
         assert (Hown : pthr s p = t) by (apply (C t p); rewrite E; now left) end.
  all: try (intros [<-|Hs]; [|tauto]; apply cnt_pos_In in Hp; lia).
  all: intros Hp; destruct (C t' p' Hp) as (B1 & B2 & B3 & B4); repeat split; auto;
    intros [<-|Hs]; [congruence|tauto].
Qed.

Lemma s_pend_nodup_step : forall t p, cnt p (pend (thr s' t)) <= 1.
Proof.
  intros t' p'. revert H. intros H'. step_cases H'; pose proof (s_pend_nodup s I) as C; simpl;
    try apply C.
  all: upd_all; simpl; try apply C; try lia.
  all: try match goal with F : nodupb _ && disjointb _ _ = true |- _ =>
             destruct (fresh_spec _ _ F) as [F1 F2]; solve [auto] end.
  all: with_key ltac:(fun a => pose proof (C a p') as Ca; ground Ca; simpl in Ca); lia.
Qed.

Lemma s_snd_step : forall p x, 0 < scnt p x (senders s') ->
  In p (sent s') /\ sb_replayed (sb s' x) = true /\ ptopic s' p = stopic s' x.
Proof.
  intros p' x'. revert H. intros H'. step_cases' H'; pose proof (s_snd s I) as C; simpl;
    try apply C.
  all: rewrite ?scnt_app, ?scnt_map_sub, ?scnt_map_pub.
  all: upd_all; simpl; try apply C.
  all: try (intros Hc;
            match type of Hc with 0 < scnt ?p ?x _ => destruct (C p x Hc) as (A1 & A2 & A3) end;
            ground A2; simpl in A2; try discriminate A2; repeat split; solve [auto]).
  1: { (* GPublish: old Senders belong to used ids *)
    intros Hc. destruct (C p' x' Hc) as (A1 & A2 & A3). destruct (fresh_spec _ _ Heqb) as [_ F2].
    assert (Hm : mem p' ms = false).
    { apply mem_false. intro Hi. apply (F2 p' Hi). now apply (s_sent_used s I). }
    rewrite Hm. auto. }
  3: { (* the replay of s0 *)
    intros Hc. assert (Hold : scnt p' s0 (senders s) = 0).
    { destruct (scnt p' s0 (senders s)) eqn:E; [reflexivity|].
      destruct (C p' s0) as (_ & A2 & _); [lia|]. rewrite Heqs1 in A2. discriminate. }
    rewrite Hold, Nat.add_0_r in Hc. apply cnt_pos_In in Hc. unfold persist_get in Hc.
    destruct (persist s) as [f|] eqn:Ep; [|destruct Hc].
    destruct (s_log s I f k p' Ep Hc) as (_ & B2 & B3).
    rewrite (r_topic_sb s I1 s0 k) by (now rewrite Heqs1). repeat split; auto.
    destruct B3 as [B3|B3]; [exact B3|]. apply postlog_reader in B3.
    rewrite (writer_no_reader s _ I0) in B3; [discriminate|].
    assert (W : writer s = Some (OwS s0)) by (apply (o_writer_S s I0); now rewrite Heqs1).
    congruence. }
  (* the snapshot of p *)
  all: intros Hc; destruct (Nat.eqb p' p) eqn:Epp;
    [apply Nat.eqb_eq in Epp; subst p'|
     destruct (C p' x') as (A1 & A2 & A3); [simpl in Hc; lia|]; repeat split; auto].
  all: destruct (cnt x' (subs s k)) eqn:Ec;
    [destruct (C p x') as (A1 & A2 & A3); [simpl in Hc; lia|]; repeat split; auto|].
  all: destruct (in_subs s x' k I1) as (B1 & B2 & _); [lia|]; repeat split; auto;
    [apply sb_reg_replayed; unfold registered in B2; now apply andb_true_iff in B2
    |rewrite <- B1; apply (s_pend s I t p); [rewrite Heqt0; now left|rewrite Heqt0; reflexivity]].
Qed.

Lemma s_unique_step : forall p x, scnt p x (senders s') <= 1.
Proof.
  intros p' x'. revert H. intros H'. step_cases' H'; pose proof (s_unique s I p' x') as C; simpl;
    try apply C.
  all: rewrite ?scnt_app, ?scnt_map_sub, ?scnt_map_pub.
  - destruct (Nat.eqb p' p) eqn:Epp; [|simpl; exact C]. apply Nat.eqb_eq in Epp; subst p'.
    rewrite (pend_no_sender s t p x' I) by (rewrite Heqt0; now left).
    pose proof (cnt_subs_le1 s x' k I1). lia.
  - destruct (Nat.eqb p' p) eqn:Epp; [|simpl; exact C]. apply Nat.eqb_eq in Epp; subst p'.
    rewrite (pend_no_sender s t p x' I) by (rewrite Heqt0; now left).
    pose proof (cnt_subs_le1 s x' k I1). lia.
  - destruct (Nat.eqb x' s0) eqn:Exx; [|simpl; exact C]. apply Nat.eqb_eq in Exx; subst x'.
    rewrite (unreplayed_no_sender s p' s0 I) by (now rewrite Heqs1).
    pose proof (log_le1 s k p' I). lia.
Qed.

Lemma s_log_step : forall f k p, persist s' = Some f -> In p (f k) ->
  In p (used s') /\ ptopic s' p = k /\ (In p (sent s') \/ In p (postlog (thr s' (pthr s' p)))).
Proof.
  intros f' k' p'. revert H. intros H'. step_cases' H'; pose proof (s_log s I) as C; simpl;
    try apply C; try discriminate.
  all: try (intros Ep Hin; destruct (C f' k' p' Ep Hin) as (A1 & A2 & A3); repeat split; auto;
            destruct A3 as [A3|A3]; [solve [auto]|];
            match goal with E : thr s ?t = _ |- _ =>
              destruct (Nat.eq_dec (pthr s p') t) as [Et|Et];
              [rewrite Et in *; rewrite ?upd_same; rewrite E in A3; simpl in A3
              |rewrite ?upd_other by exact Et]
            end; solve [tauto | simpl; tauto | destruct A3; subst; auto]).
  - (* GPublish *)
    intros Ep Hin. destruct (C f' k' p' Ep Hin) as (A1 & A2 & A3).
    destruct (fresh_spec _ _ Heqb) as [_ F2].
    assert (Hm : mem p' ms = false) by (apply mem_false; intro Hi; apply (F2 p' Hi); exact A1).
    rewrite Hm. repeat split; auto; [rewrite in_app_iff; auto|].
    destruct A3 as [A3|A3]; [auto|]. right.
    destruct (Nat.eq_dec (pthr s p') t) as [Et|Et]; [|now rewrite upd_other].
    rewrite Et, Heqt0 in A3. destruct A3.
  - (* the append to the log *)
    intros Ep Hin. inversion Ep; subst f'; clear Ep.
    assert (Hold : In p' (l0 k') -> In p' (used s) /\ ptopic s p' = k' /\
              (In p' (sent s) \/ In p' (postlog (upd (thr s) t (PSend k ms) (pthr s p'))))).
    { intros Hi. destruct (C l0 k' p' Heqo Hi) as (A1 & A2 & A3). repeat split; auto.
      destruct A3 as [A3|A3]; [auto|]. right.
      destruct (Nat.eq_dec (pthr s p') t) as [Et|Et]; [|now rewrite upd_other].
      rewrite Et, Heqt0 in A3. destruct A3. }
    destruct (Nat.eq_dec k' k) as [->|Hk]; [rewrite upd_same in Hin|rewrite upd_other in Hin by exact Hk; auto].
    apply in_app_iff in Hin. destruct Hin as [Hi|Hi]; [auto|].
    destruct (s_pend s I t p') as (B1 & B2 & B3 & B4); [rewrite Heqt0; exact Hi|].
    repeat split; auto; [apply B4; now rewrite Heqt0|]. right. rewrite B1, upd_same. exact Hi.
Qed.

Lemma s_log_nodup_step : forall f k p, persist s' = Some f -> cnt p (f k) <= 1.
Proof.
  intros f' k' p'. revert H. intros H'. step_cases' H'; pose proof (s_log_nodup s I) as C; simpl;
    try apply C; try discriminate.
  intros Ep. inversion Ep; subst f'; clear Ep.
  destruct (Nat.eq_dec k' k) as [->|Hk]; [rewrite upd_same|rewrite upd_other by exact Hk; eauto].
  rewrite cnt_app. pose proof (C l0 k p' Heqo) as C1.
  pose proof (s_pend_nodup s I t p') as C2. rewrite Heqt0 in C2. simpl in C2.
  destruct (cnt p' ms) eqn:Em; [lia|]. 
  assert (Hi : In p' ms) by (apply cnt_pos_In; lia).
  destruct (s_pend s I t p') as (B1 & B2 & B3 & B4); [rewrite Heqt0; exact Hi|].
  destruct (cnt p' (l0 k)) eqn:El; [lia|].
  assert (Hl : In p' (l0 k)) by (apply cnt_pos_In; lia).
  destruct (s_log s I l0 k p' Heqo Hl) as (_ & _ & [A|A]); [contradiction|].
  rewrite B1, Heqt0 in A. destruct A.
Qed.

Lemma s_logged_step : persistent s' = true -> forall f t p, persist s' = Some f ->
  In p (postlog (thr s' t)) -> In p (f (ptopic s' p)).
Proof.
  intros Hpers f' t' p'. revert H Hpers. intros H' Hpers.
  step_cases' H'; simpl in Hpers; pose proof (s_logged s I Hpers) as C; simpl; try apply C;
    try discriminate; try congruence.
  all: upd_all; simpl; try apply C; try tauto.
  all: try (with_key ltac:(fun a => pose proof (C f' a p') as Ca; ground Ca; simpl in Ca);
            solve [auto]).
  - intros Ep Hi. destruct (fresh_spec _ _ Heqb) as [_ F2].
    assert (Hm : mem p' ms = false).
    { apply mem_false. intro Hm. apply (F2 p' Hm). apply (s_pend s I t' p'). now apply postlog_pend. }
    rewrite Hm. eauto.
  - intros Ep Hi. inversion Ep; subst f'; clear Ep.
    destruct (s_pend s I t p') as (_ & _ & _ & B4); [rewrite Heqt0; exact Hi|].
    rewrite (B4 k) by (now rewrite Heqt0). rewrite upd_same, in_app_iff. auto.
  - intros Ep Hi. inversion Ep; subst f'; clear Ep. apply in_upd_app. eauto.
Qed.

Lemma s_sent_logged_step : persistent s' = true -> forall f p, persist s' = Some f ->
  In p (sent s') -> In p (f (ptopic s' p)).
Proof.
  intros Hpers f' p'. revert H Hpers. intros H' Hpers.
  step_cases' H'; simpl in Hpers; pose proof (s_sent_logged s I Hpers) as C; simpl; try apply C;
    try discriminate; try congruence.
  all: try (intros Ep [<-|Hi]; [|solve [eauto]];
            match goal with E : thr s ?t = _ |- _ =>
              apply (s_logged s I Hpers f' t); [exact Ep|rewrite E; now left] end).
  - intros Ep Hi. destruct (fresh_spec _ _ Heqb) as [_ F2].
    assert (Hm : mem p' ms = false).
    { apply mem_false. intro Hm. apply (F2 p' Hm). now apply (s_sent_used s I). }
    rewrite Hm. eauto.
  - intros Ep Hi. inversion Ep; subst f'; clear Ep. apply in_upd_app. eauto.
Qed.

Lemma s_one_step : persistent s' = true -> forall x p,
  sb_replayed (sb s' x) = true -> td_pre (td s' x) = true ->
  In p (sent s') -> ptopic s' p = stopic s' x -> scnt p x (senders s') = 1.
Proof.
  intros Hpers x' p'. revert H Hpers. intros H' Hpers.
  step_cases' H'; simpl in Hpers; pose proof (s_one s I Hpers) as C; simpl; try apply C;
    try discriminate; try congruence.
  all: rewrite ?scnt_app, ?scnt_map_sub, ?scnt_map_pub.
  all: upd_all; simpl; try apply C; try congruence.
  all: try (with_key ltac:(fun a => pose proof (C a p') as Ca; ground Ca; simpl in Ca);
            solve [auto]).
  1: { intros Hr Hd Hi Ht. destruct (fresh_spec _ _ Heqb) as [_ F2].
    assert (Hm : mem p' ms = false).
    { apply mem_false. intro Hm. apply (F2 p' Hm). now apply (s_sent_used s I). }
    rewrite Hm in Ht. auto. }
  5: { (* the replay *)
    intros _ Hd Hi Ht. rewrite (unreplayed_no_sender s p' s0 I) by (now rewrite Heqs1).
    destruct (counted_log s s0 I1) as [f Ef].
    { unfold counted. rewrite Heqs1. simpl. destruct (td s s0); simpl in *; congruence. }
    pose proof (s_sent_logged s I Hpers f p' Ef Hi) as Hl.
    rewrite Ht, (r_topic_sb s I1 s0 k) in Hl by (now rewrite Heqs1).
    pose proof (log_le1 s k p' I) as Hle. unfold persist_get in *. rewrite Ef in *.
    apply cnt_pos_In in Hl. lia. }
  all: intros Hr Hd Hi Ht.
  all: assert (Hns : ~ In p (sent s)) by (apply (s_pend s I t p); rewrite Heqt0; now left).
  all: destruct Hi as [<-|Hi];
    [ pose proof (snapshot_covers s t k p _ x' I0 I1 I Heqt0 Hr Hd Ht) as Hcov;
      pose proof (pend_no_sender s t p x' I) as Hno; rewrite Heqt0 in Hno;
      specialize (Hno (or_introl eq_refl)); rewrite ?Nat.eqb_refl; rewrite ?Hcov, ?Hno;
      try reflexivity; rewrite Heql1 in Hcov; discriminate Hcov
    | try (destruct (Nat.eqb p' p) eqn:Epp; [apply Nat.eqb_eq in Epp; subst p'; contradiction|]);
      simpl; auto ].
Qed.
End Step.

Lemma inv2_step s l s' : Inv0 s -> Inv1 s -> Inv2 s -> gstep s l = Some s' -> Inv2 s'.
Proof.
  intros I0 I1 I H. constructor.
  - eapply s_sent_used_step; eauto.
  - eapply s_pend_step; eauto.
  - eapply s_pend_nodup_step; eauto.
  - eapply s_snd_step; eauto.
  - eapply s_unique_step; eauto.
  - eapply s_log_step; eauto.
  - eapply s_log_nodup_step; eauto.
  - eapply s_logged_step; eauto.
  - eapply s_sent_logged_step; eauto.
  - eapply s_one_step; eauto.
Qed.

(** * All safety invariants together *)
Definition Inv (s : gstate) : Prop := Inv0 s /\ Inv1 s /\ Inv2 s.
Lemma inv_step s l s' : Inv s -> gstep s l = Some s' -> Inv s'.
Proof.
  intros (I0 & I1 & I2) H. split; [|split];
    [eapply inv0_step|eapply inv1_step|eapply inv2_step]; eauto.
Qed.
Lemma inv_init pers blk fx : Inv (ginit pers blk fx).
Proof. split; [|split]; [apply inv0_init|apply inv1_init|apply inv2_init]. Qed.
Theorem reg_inv pers blk fx ls : Inv (grun (ginit pers blk fx) ls).
Proof. apply grun_ind; [exact inv_step|apply inv_init]. Qed.

(** R2 *)
Theorem sender_unique pers blk fx ls p x : nsenders (grun (ginit pers blk fx) ls) p x <= 1.
Proof. destruct (reg_inv pers blk fx ls) as (_ & _ & I). apply (s_unique _ I). Qed.

Lemma senders_grow_step s l s' : gstep s l = Some s' -> exists new, senders s' = new ++ senders s.
Proof.
  intros H. step_cases' H; simpl; try (exists []; reflexivity); eauto.
Qed.
Theorem senders_monotone s ls : exists new, senders (grun s ls) = new ++ senders s.
Proof.
  apply (grun_ind (fun s' => exists new, senders s' = new ++ senders s)); [|exists []; reflexivity].
  intros s1 l s2 [n1 E1] H. apply senders_grow_step in H as [n2 E2]. exists (n2 ++ n1).
  now rewrite E2, E1, app_assoc.
Qed.

(** R3 *)
Theorem sender_topic pers blk fx ls p x : let s := grun (ginit pers blk fx) ls in
  In (p, x) (senders s) -> ptopic s p = stopic s x.
Proof.
  intros s Hi. destruct (reg_inv pers blk fx ls) as (_ & _ & I). apply scnt_pos_In in Hi.
  now apply (s_snd _ I p x).
Qed.

(** R4: the snapshot step *)
Lemma snapshot_complete_step s t k p rem s' : Inv s ->
  thr s t = PSend k (p :: rem) -> gstep s (GT t) = Some s' ->
  (forall x, In x (subs s k) -> nsenders s' p x = 1)
  /\ (forall q y, (q <> p \/ ~ In y (subs s k)) -> nsenders s' q y = nsenders s q y)
  /\ In p (sent s').
Proof.
  intros (I0 & I1 & I) E H. simpl in H. rewrite E in H.
  assert (Es : senders s' = map (fun x => (p, x)) (subs s k) ++ senders s /\ sent s' = p :: sent s).
  { destruct (subs s k); inversion H; subst; simpl; auto. }
  destruct Es as [Es Et]. split; [|split].
  - intros x Hx. rewrite nsenders_scnt, Es, scnt_app, scnt_map_sub, Nat.eqb_refl.
    rewrite (pend_no_sender s t p x I) by (rewrite E; now left).
    apply cnt_pos_In in Hx. pose proof (cnt_subs_le1 s x k I1). lia.
  - intros q y Hq. rewrite !nsenders_scnt, Es, scnt_app, scnt_map_sub.
    destruct (Nat.eqb q p) eqn:Eq; [|reflexivity]. apply Nat.eqb_eq in Eq. subst q.
    destruct Hq as [Hq|Hq]; [congruence|]. apply cnt_zero_notin in Hq. lia.
  - rewrite Et. now left.
Qed.
Theorem snapshot_complete pers blk fx ls t k p rem s' : let s := grun (ginit pers blk fx) ls in
  thr s t = PSend k (p :: rem) -> gstep s (GT t) = Some s' ->
  (forall x, In x (subs s k) -> nsenders s' p x = 1)
  /\ (forall q y, (q <> p \/ ~ In y (subs s k)) -> nsenders s' q y = nsenders s q y)
  /\ In p (sent s').
Proof. intros s. apply snapshot_complete_step. apply reg_inv. Qed.

(** R5 *)
Theorem registered_window pers blk fx ls x k : let s := grun (ginit pers blk fx) ls in
  In x (subs s k) <-> (k = stopic s x /\ sb_reg (sb s x) = true /\ td_pre (td s x) = true).
Proof.
  intros s. destruct (reg_inv pers blk fx ls) as (_ & I1 & _). fold s in I1.
  rewrite <- cnt_pos_In, (r_subs s I1 x k). unfold registered.
  destruct (Nat.eqb k (stopic s x)) eqn:E.
  - apply Nat.eqb_eq in E. destruct (sb_reg (sb s x)), (td_pre (td s x)); simpl;
      split; intros; try lia; intuition congruence.
  - apply Nat.eqb_neq in E. split; [lia|tauto].
Qed.
(** ... and the list has no duplicates *)
Theorem subs_nodup pers blk fx ls k : NoDup (subs (grun (ginit pers blk fx) ls) k).
Proof.
  destruct (reg_inv pers blk fx ls) as (_ & I1 & _). apply cnt_le1_NoDup. intros x.
  now apply cnt_subs_le1.
Qed.

(** R6 *)
Theorem persistent_exactly_one pers blk fx ls x k p : let s := grun (ginit pers blk fx) ls in
  persistent s = true -> In x (subs s k) -> In p (sent s) -> ptopic s p = k ->
  nsenders s p x = 1.
Proof.
  intros s Hp Hx Hs Ht. destruct (reg_inv pers blk fx ls) as (_ & I1 & I). fold s in I1, I.
  apply cnt_pos_In in Hx. destruct (in_subs s x k I1 Hx) as (E & R & _).
  unfold registered in R. apply andb_true_iff in R as [R1 R2].
  apply (s_one s I Hp x p); auto; [now apply sb_reg_replayed|congruence].
Qed.

(** * R7: a blocking Publish has waited for every message *)
(** the messages of the call that are not yet waited for; [None]: no claim (the call failed) *)
Definition unwaited (p : tpc) : option (list pubid) :=
  match p with
  | PCheck _ ms | PRLock _ ms | PTLock _ ms | PPersist _ ms | PSend _ ms => Some ms
  | PWait _ p rem => Some (p :: rem)
  | PTUnlock _ | PRUnlock | PDone true => Some []
  | _ => None
  end.
Definition Inv7 (s : gstate) : Prop :=
  blocking s = true -> fix7 s = true -> forall t l p,
  unwaited (thr s t) = Some l -> In p (pmsgs s t) ->
  In p l \/ mem p (acked s) = true \/ gclosing s = true.

Lemma inv7_init pers blk fx : Inv7 (ginit pers blk fx).
Proof. intros _ _ t l p. simpl. discriminate. Qed.

Lemma inv7_step s l s' : Inv7 s -> gstep s l = Some s' -> Inv7 s'.
Proof.
  intros I H Hb Hf t' l' p'. revert Hb Hf. step_cases' H; simpl; intros Hb Hf;
    pose proof (I Hb Hf) as C; try apply C; try congruence.
  all: upd_all; simpl; try apply C; try congruence.
  all: try match goal with |- context [panicked ?s0] => destruct (panicked s0) end; simpl; try discriminate.
  all: intros E Hi.
  all: try (destruct (C t' l' p' E Hi) as [A|[A|A]]; auto; right; left; rewrite A;
            solve [apply orb_true_r]).
  all: try (inversion E; subst l'; clear E).
  all: try solve [auto].
  all: match goal with E0 : thr _ ?t = _ |- _ =>
         pose proof (C t) as Ca; rewrite E0 in Ca; simpl in Ca;
         destruct (Ca _ p' eq_refl Hi) as [A|[A|A]]; simpl in *; auto end.
  all: try (right; left; rewrite A; solve [apply orb_true_r]).
  all: destruct A as [<-|A]; auto.
  all: try (rewrite Nat.eqb_refl; auto).
  all: match goal with G : _ || _ = true |- _ => apply orb_true_iff in G; tauto end.
Qed.

Theorem reg_inv7 pers blk fx ls : Inv7 (grun (ginit pers blk fx) ls).
Proof. apply grun_ind; [exact inv7_step|apply inv7_init]. Qed.

(** a blocking Publish that returned nil: each of its messages was acked by all subscribers
    of its snapshot, or the Pub/Sub was being closed, when the call stopped waiting for it *)
Theorem blocking_waits pers ls t p : let s := grun (ginit pers true true) ls in
  thr s t = PDone true -> In p (pmsgs s t) -> mem p (acked s) = true \/ gclosing s = true.
Proof.
  intros s E Hi. destruct (grun_cfg (ginit pers true true) ls) as (_ & Hb & Hf).
  assert (U : unwaited (thr s t) = Some []) by (now rewrite E).
  destruct (reg_inv7 pers true true ls Hb Hf t [] p U Hi) as [A|A]; [destruct A|exact A].
Qed.
(** ... and the same for a call that is still under way: what it no longer waits for *)
Theorem blocking_waits_pc pers ls t l p : let s := grun (ginit pers true true) ls in
  unwaited (thr s t) = Some l -> In p (pmsgs s t) ->
  In p l \/ mem p (acked s) = true \/ gclosing s = true.
Proof.
  intros s. destruct (grun_cfg (ginit pers true true) ls) as (_ & Hb & Hf).
  exact (reg_inv7 pers true true ls Hb Hf t l p).
Qed.


(** * R8: after Close has returned *)
Lemma after_close_state s t : Inv s -> thr s t = CDone ->
  closed s = true /\ wg s = 0 /\ (forall k, subs s k = [])
  /\ (forall x, td s x = DNone \/ td_post (td s x) = true).
Proof.
  intros (I0 & I1 & _) E.
  assert (Hc : closed s = true) by (apply (r_closer s I1 t); now rewrite E).
  assert (Hw : wg s = 0) by (apply (r_waited s I1 t); now rewrite E).
  assert (Hn : forall x, counted s x = false).
  { intros x. destruct (counted s x) eqn:Ec; [|reflexivity]. apply (counted_wg s x I1) in Ec. lia. }
  repeat split; auto.
  - intros k. destruct (subs s k) as [|x l] eqn:Es; [reflexivity|].
    assert (Hx : 0 < cnt x (subs s k)) by (rewrite Es; simpl; rewrite Nat.eqb_refl; lia).
    destruct (in_subs s x k I1 Hx) as (_ & R & _). specialize (Hn x).
    unfold registered, counted in *. apply andb_true_iff in R as [R1 R2].
    destruct (sb s x), (td s x); simpl in *; discriminate.
  - intros x. specialize (Hn x). unfold counted in Hn. pose proof (o_early s I0 x) as Oe.
    destruct (td s x) eqn:Ed; simpl; auto; destruct (sb s x); simpl in *;
      try discriminate; try (specialize (Oe eq_refl); discriminate).
Qed.
Theorem after_close pers blk fx ls t : let s := grun (ginit pers blk fx) ls in
  thr s t = CDone ->
  closed s = true /\ wg s = 0 /\ (forall k, subs s k = [])
  /\ (forall x, td s x = DNone \/ td_post (td s x) = true).
Proof. intros s. apply after_close_state. apply reg_inv. Qed.

(** ... and from then on ([closed] is never reset) Publish and Subscribe return an error *)
Lemma closed_mono_step s l s' : closed s = true -> gstep s l = Some s' -> closed s' = true.
Proof. intros Hc H. step_cases H; simpl; congruence. Qed.
Theorem closed_mono s ls : closed s = true -> closed (grun s ls) = true.
Proof. intros Hc. apply grun_ind; [intros; eapply closed_mono_step; eauto|exact Hc]. Qed.
Theorem after_close_publish s t k ms s' : closed s = true -> thr s t = PCheck k ms ->
  gstep s (GT t) = Some s' -> thr s' t = PDone false.
Proof.
  intros Hc E H. simpl in H. rewrite E, Hc in H. destruct (clock s); inversion H; subst; simpl.
  apply upd_same.
Qed.
Theorem after_close_subscribe s x k s' : closed s = true -> sb s x = SCheck k ->
  gstep s (GS_ x) = Some s' -> sb s' x = SFail.
Proof.
  intros Hc E H. simpl in H. rewrite E, Hc in H. destruct (clock s); inversion H; subst; simpl.
  apply upd_same.
Qed.
