(** Registry protocol of the GoChannel (GoChannel/Reg.v): once the Pub/Sub is closing
    (g.closing closed by a Close call) NOTHING is ever stuck - in blocking mode too: a Publish
    waiting for Acks sees g.closing.  Hence every Close call can always make progress:

      closing_progress  : any mode, every reachable state with [gclosing s = true]: if something
                          is busy some internal label is enabled (RegLive.reg_progress without
                          the non-blocking hypothesis, at the price of [gclosing]).
      close_never_stuck : any mode, every reachable state: a started Close call that has not
                          returned is never the cause of a stuck system - some internal label is
                          enabled (CLock waits for another Close, which is past CBody or can
                          step; from CBody on [gclosing] holds or the call just unlocks).
    With RegLive.measure_step (every internal step decreases the measure, any mode) every run of
    internal steps from a state with a pending Close is finite and can always be extended until
    the Close has returned: "every Close call returns" at the registry level.
    The section below is RegLive's progress section with the hypothesis [blocking s = false]
    replaced by [gclosing s = true] (the only use of the former was "no thread is at PWait"). *)
From WM Require Import Base.Prelude GoChannel.Reg GoChannel.RegLocks GoChannel.RegInv
                       GoChannel.RegSend GoChannel.RegLive.

Section ClosingProgress.
Variable s : gstate.
Hypotheses (I0 : Inv0 s) (I1 : Inv1 s) (GC : gclosing s = true).

Lemma pwait_c t k p rem : thr s t = PWait k p rem -> Prog s.
Proof.
  intros E. exists (GT t). split; [reflexivity|]. unfold en. simpl. rewrite E, GC, orb_true_r. eauto.
Qed.

Lemma tlock_holder_prog_c k o : tlock s k = Some o -> Prog s.
Proof.
  intros E. destruct o as [t|x|x].
  - apply (o_tl_P s I0) in E. destruct (thr s t) eqn:Et; simpl in E; try discriminate E;
      try (apply (tp_free_en s t); now rewrite Et). now apply (pwait_c t k0 p rem).
  - apply (o_tl_S s I0) in E. apply (sb_free_en s x). destruct (sb s x); simpl in *; congruence.
  - apply (o_tl_T s I0) in E. apply (td_free_en s x). destruct (td s x); simpl in *; congruence.
Qed.
Lemma thr_tlock_prog_c t k ms : thr s t = PTLock k ms -> Prog s.
Proof.
  intros E. destruct (tlock s k) as [o|] eqn:El; [now apply (tlock_holder_prog_c k o)|].
  exists (GT t). split; [reflexivity|]. en_tac.
Qed.
Lemma sb_tlock_prog_c x k : sb s x = STLock k -> Prog s.
Proof.
  intros E. destruct (tlock s k) as [o|] eqn:El; [now apply (tlock_holder_prog_c k o)|].
  exists (GS_ x). split; [reflexivity|]. en_tac.
Qed.
Lemma td_tlock_prog_c x k : td s x = DTLock k -> Prog s.
Proof.
  intros E. destruct (tlock s k) as [o|] eqn:El; [now apply (tlock_holder_prog_c k o)|].
  exists (GD x). split; [reflexivity|]. en_tac.
Qed.

(** the writer waits at most for a topic lock *)
Lemma writer_prog_c o : writer s = Some o -> Prog s.
Proof.
  intros E. destruct o as [t|x|x].
  - now apply (o_writer_P s I0) in E.
  - apply (o_writer_S s I0) in E. destruct (sb s x) eqn:Es; simpl in E; try discriminate E;
      try (apply (sb_free_en s x); now rewrite Es). now apply (sb_tlock_prog_c x k).
  - apply (o_writer_T s I0) in E. destruct (td s x) eqn:Es; simpl in E; try discriminate E;
      try (apply (td_free_en s x); now rewrite Es). now apply (td_tlock_prog_c x k).
Qed.
(** so does a reader *)
Lemma reader_prog_c t : tp_r (thr s t) = true -> Prog s.
Proof.
  intros E.
  destruct (thr s t) eqn:Et; simpl in *; try discriminate;
    try (apply (tp_free_en s t); now rewrite Et);
    [now apply (thr_tlock_prog_c t k ms)|now apply (pwait_c t k p rem)].
Qed.
Lemma readers_prog_c : readers s <> [] -> Prog s.
Proof.
  destruct (readers s) as [|t r] eqn:E; [congruence|]. intros _. apply (reader_prog_c t).
  pose proof (o_readers s I0 t) as R. rewrite E in R. simpl in R. rewrite Nat.eqb_refl in R.
  destruct (tp_r (thr s t)); [reflexivity|simpl in R; lia].
Qed.
(** an announced writer: the lock is taken, or readers are draining, or it can lock *)
Lemma announced_prog_c o : 0 < ocnt o (wpending s) -> Prog s.
Proof.
  intros Ho. destruct (writer s) as [o'|] eqn:Ew; [now apply (writer_prog_c o')|].
  destruct (readers s) as [|t r] eqn:Er; [|apply readers_prog_c; congruence].
  assert (Hc : can_wlock s o = true).
  { unfold can_wlock. rewrite Ew, Er. now apply existsb_ocnt. }
  destruct o as [t|x|x].
  - rewrite (o_pend_P s I0 t) in Ho. lia.
  - rewrite (o_pend_S s I0 x) in Ho. destruct (sb s x) eqn:Es; simpl in Ho; try lia.
    exists (GS_ x). split; [reflexivity|]. unfold en. simpl. rewrite Es, Hc. eauto.
  - rewrite (o_pend_T s I0 x) in Ho. destruct (td s x) eqn:Es; simpl in Ho; try lia.
    exists (GD x). split; [reflexivity|]. unfold en. simpl. rewrite Es, Hc. eauto.
Qed.
Lemma sb_ann_prog_c x k : sb s x = SWAnn k -> Prog s.
Proof. intros E. apply (announced_prog_c (OwS x)). rewrite (o_pend_S s I0 x), E. simpl. lia. Qed.
Lemma td_ann_prog_c x k : td s x = DWAnn k -> Prog s.
Proof. intros E. apply (announced_prog_c (OwT x)). rewrite (o_pend_T s I0 x), E. simpl. lia. Qed.
(** a reader-to-be waits for the writer or for an announced writer *)
Lemma rlock_prog_c t k ms : thr s t = PRLock k ms -> Prog s.
Proof.
  intros E. destruct (writer s) as [o'|] eqn:Ew; [now apply (writer_prog_c o')|].
  destruct (wpending s) as [|o r] eqn:Ep.
  - exists (GT t). split; [reflexivity|]. unfold en. simpl. rewrite E. unfold can_rlock.
    rewrite Ew, Ep. eauto.
  - apply (announced_prog_c o). rewrite Ep, ocnt_cons, owner_eqb_refl. lia.
Qed.

(** a subscription that is counted in the WaitGroup while the Pub/Sub is closing: its
    Subscribe / replay or its teardown can step, or waits for somebody who can *)
Lemma counted_prog_c x : counted s x = true -> gclosing s = true -> Prog s.
Proof.
  intros Hc Hg. unfold counted in Hc. apply andb_true_iff in Hc as [Hs Hd].
  destruct (sb s x) eqn:Es; simpl in Hs; try discriminate Hs;
    try (apply (sb_free_en s x); now rewrite Es).
  - now apply (sb_ann_prog_c x k).
  - now apply (sb_tlock_prog_c x k).
  - (* Subscribe is over: the teardown *)
    pose proof (r_started s I1 x) as St. rewrite Es in St.
    destruct (td s x) eqn:Ed; simpl in Hd; try discriminate Hd;
      try (apply (td_free_en s x); now rewrite Ed).
    + specialize (St eq_refl). discriminate St.
    + exists (GD x). split; [reflexivity|]. unfold en. simpl. rewrite Ed, Hg, orb_true_r. eauto.
    + now apply (td_ann_prog_c x k0).
    + now apply (td_tlock_prog_c x k0).
Qed.

(** whoever holds closedLock is a Close call that can step, or waits for the WaitGroup *)
Lemma close_wait_prog_c t : thr s t = CWait -> Prog s.
Proof.
  intros E. destruct (wg s) as [|n] eqn:Ew.
  - exists (GT t). split; [reflexivity|]. unfold en. simpl. rewrite E, Ew. eauto.
  - assert (Hg : gclosing s = true).
    { rewrite <- (o_closed s I0). apply (r_closer s I1 t). now rewrite E. }
    destruct (nfilter_pos_ex (counted s) (allsubs s)) as (x & _ & Hc);
      [rewrite <- (r_wg s I1); lia|]. now apply (counted_prog_c x).
Qed.
Lemma clock_holder_prog_c t : clock s = Some t -> Prog s.
Proof.
  intros E. apply (o_clock s I0) in E. destruct (thr s t) eqn:Et; simpl in E; try discriminate E;
    try (apply (tp_free_en s t); now rewrite Et). now apply (close_wait_prog_c t).
Qed.
Lemma thr_active_prog_c t : tp_active (thr s t) = true -> Prog s.
Proof.
  intros Ha.
  destruct (thr s t) eqn:Et; simpl in *; try discriminate;
    try (apply (tp_free_en s t); now rewrite Et);
    try (now apply (pwait_c t k p rem)).
  - destruct (clock s) as [t'|] eqn:Ec; [now apply (clock_holder_prog_c t')|].
    exists (GT t). split; [reflexivity|]. unfold en. simpl. rewrite Et, Ec. destruct (closed s); eauto.
  - now apply (rlock_prog_c t k ms).
  - now apply (thr_tlock_prog_c t k ms).
  - destruct (clock s) as [t'|] eqn:Ec; [now apply (clock_holder_prog_c t')|].
    exists (GT t). split; [reflexivity|]. unfold en. simpl. rewrite Et, Ec. eauto.
  - now apply (close_wait_prog_c t).
Qed.
Lemma sb_active_prog_c x : sb_active (sb s x) = true -> Prog s.
Proof.
  intros Ha. destruct (sb s x) eqn:Es; simpl in *; try discriminate;
    try (apply (sb_free_en s x); now rewrite Es).
  - destruct (clock s) as [t'|] eqn:Ec; [now apply (clock_holder_prog_c t')|].
    exists (GS_ x). split; [reflexivity|]. unfold en. simpl. rewrite Es, Ec. destruct (closed s); eauto.
  - now apply (sb_ann_prog_c x k).
  - now apply (sb_tlock_prog_c x k).
Qed.
Lemma td_active_prog_c x : td_active s x = true -> Prog s.
Proof.
  unfold td_active. intros Ha. destruct (td s x) eqn:Ed; simpl in *; try discriminate;
    try (apply (td_free_en s x); now rewrite Ed).
  - exists (GD x). split; [reflexivity|]. unfold en. simpl. rewrite Ed, Ha. eauto.
  - now apply (td_ann_prog_c x k).
  - now apply (td_tlock_prog_c x k).
Qed.
End ClosingProgress.

Theorem closing_progress pers blk fx ls : let s := grun (ginit pers blk fx) ls in
  gclosing s = true -> busy s -> Prog s.
Proof.
  intros s GC Hb. destruct (reg_inv pers blk fx ls) as (I0 & I1 & _). fold s in I0, I1.
  destruct Hb as [[t Ht]|[[x Hx]|[x Hx]]].
  - eapply thr_active_prog_c; eauto.
  - eapply sb_active_prog_c; eauto.
  - eapply td_active_prog_c; eauto.
Qed.

Definition tp_closing (p : tpc) : bool :=
  match p with CLock | CBody | CWait | CNil | CUnlock => true | _ => false end.

Theorem close_never_stuck pers blk fx ls t : let s := grun (ginit pers blk fx) ls in
  tp_closing (thr s t) = true -> Prog s.
Proof.
  intros s Ht. destruct (reg_inv pers blk fx ls) as (I0 & I1 & _). fold s in I0, I1.
  assert (Hhold : forall t', tp_clock (thr s t') = true -> Prog s).
  { intros t' Hc. destruct (thr s t') eqn:Et; simpl in Hc; try discriminate Hc;
      try (apply (tp_free_en s t'); now rewrite Et).
    (* CWait: closed, hence closing *)
    assert (GC : gclosing s = true).
    { rewrite <- (o_closed s I0). apply (r_closer s I1 t'). now rewrite Et. }
    apply (closing_progress pers blk fx ls GC). left. exists t'. fold s. now rewrite Et. }
  destruct (thr s t) eqn:Et; simpl in Ht; try discriminate Ht;
    try (apply (Hhold t); now rewrite Et).
  (* CLock *)
  destruct (clock s) as [t'|] eqn:Ec.
  - apply (Hhold t'). now apply (o_clock s I0).
  - exists (GT t). split; [reflexivity|]. unfold en. simpl. rewrite Et, Ec. eauto.
Qed.

Print Assumptions closing_progress.
Print Assumptions close_never_stuck.
