(** Layer A of the GoChannel model: progress WITH the consumer.  In every reachable state in
    which some Sender has started and not returned, some label of the subscription other than
    the synchronised ones (LSpawn, LTdSpawn, LTdWake) is enabled: a Sender's or the teardown's
    own step, or a consumer step (LRecv / LHandoff / LAck).
      xb_run        : a copy that was handed to the channel and not received is in the buffer.
      sub_progress  : the progress statement. *)
From WM Require Import Base.Prelude Message.Model GoChannel.Sub GoChannel.SubProofs
                       GoChannel.SubInvX GoChannel.SubLive.

Definition XB (s : sstate) : Prop :=
  forall c, c_sent (copies s c) = true -> c_recv (copies s c) = false -> In c (buf s).

Lemma xb_step s l s' : SInv s -> XB s -> sstep s l = Some s' -> XB s'.
Proof.
  intros I B E c'. specialize (B c') as Bc.
  destruct l as [t p|  | | |t|t|t|t|t|t| |c|c]; simpl in E; sstep_cases E; simpl; auto.
  all: intros Hs Hr.
  all: repeat match goal with
         | H : context [upd _ ?a _ ?b] |- _ =>
             destruct (Nat.eq_dec b a) as [?|?];
             [subst; rewrite upd_same in *; simpl in *|rewrite upd_other in * by assumption]
         end; try discriminate; try congruence; auto.
  all: try (apply in_or_app; solve [right; now left | left; auto]).
  destruct (Bc Hs Hr) as [?|Hin]; [congruence|exact Hin].
Qed.
Lemma xb_run ls : forall s, SInv s -> XB s -> XB (srun s ls).
Proof.
  induction ls as [|l ls IH]; intros s I B; simpl; [exact B|].
  destruct (sstep s l) as [s'|] eqn:E; [|now apply IH].
  apply IH; [eapply sstep_inv; eauto|eapply xb_step; eauto].
Qed.
Lemma xb_reach cap0 fx ls : XB (srun (sinit cap0 fx) ls).
Proof. apply xb_run; [apply sinv_init|]. intros c. simpl. discriminate. Qed.

Definition free_label (l : label) : bool :=
  match l with LSpawn _ _ | LTdSpawn | LTdWake => false | _ => true end.
Definition SProg (s : sstate) : Prop := exists l, free_label l = true /\ sstep s l <> None.

(** the holder of the sending lock can step, or the consumer can *)
Lemma holder_progress s t : SInv s -> XB s -> sholds (thr s t) = true -> SProg s.
Proof.
  intros I B Hh. destruct (thr s t) as [|p|p|p c|p c|p|p] eqn:E; try discriminate Hh.
  - exists (LStep t). split; [reflexivity|]. simpl. rewrite E.
    destruct (closedf s); [discriminate|]. destruct (fixed s && closing s); discriminate.
  - (* SSend: into the buffer, or hand over, or the consumer drains the buffer *)
    destruct (v_send _ I _ _ _ E) as (_ & _ & _ & Hcl & _).
    assert (Hcc : chan_closed s = false) by (destruct (v_closed _ I) as [H1 H2]; congruence).
    destruct (buf s) as [|c0 b] eqn:Eb.
    + exists (LHandoff t). split; [reflexivity|]. simpl. rewrite E, Hcc, Eb. discriminate.
    + exists LRecv. split; [reflexivity|]. simpl. rewrite Eb. discriminate.
  - (* SWait *)
    destruct (v_wait _ I _ _ _ E) as (_ & Hs & _).
    destruct (c_st (copies s c)) eqn:Est.
    + destruct (c_recv (copies s c)) eqn:Er.
      * exists (LAck c). split; [reflexivity|]. simpl. rewrite Er, Est. discriminate.
      * exists LRecv. split; [reflexivity|]. simpl. pose proof (B c Hs Er) as Hin.
        destruct (buf s); [destruct Hin|discriminate].
    + exists (LSeeAcked t). split; [reflexivity|]. simpl. rewrite E, Est. discriminate.
    + exists (LSeeNacked t). split; [reflexivity|]. simpl. rewrite E, Est. discriminate.
  - exists (LStep t). split; [reflexivity|]. simpl. rewrite E. discriminate.
Qed.

Definition s_active (p : spc) : bool := match p with SNone | SDone _ => false | _ => true end.

Theorem sub_progress s t : SInv s -> XB s -> s_active (thr s t) = true -> SProg s.
Proof.
  intros I B Ha. destruct (sholds (thr s t)) eqn:Eh; [now apply (holder_progress s t)|].
  destruct (thr s t) as [|p|p|p c|p c|p|p] eqn:E; try discriminate.
  (* SWant: the lock is free, or its holder can step *)
  destruct (sending s) as [[t'|]|] eqn:Es.
  - apply (holder_progress s t' I B). now apply (v_own_s _ I).
  - apply (v_own_t _ I) in Es. exists LTdStep. split; [reflexivity|]. simpl.
    destruct (td s); try discriminate Es; discriminate.
  - exists (LStep t). split; [reflexivity|]. simpl. rewrite E, Es. discriminate.
Qed.

(** the teardown of a woken subscription: it or the lock holder can step *)
Theorem teardown_progress s : SInv s -> XB s -> woken (td s) = true -> td s <> TDone -> SProg s.
Proof.
  intros I B Hw Hn. destruct (td s) eqn:E; try discriminate Hw; try congruence.
  - exists LTdStep. split; [reflexivity|]. simpl. rewrite E. discriminate.
  - destruct (sending s) as [[t|]|] eqn:Es.
    + apply (holder_progress s t I B). now apply (v_own_s _ I).
    + apply (v_own_t _ I) in Es. rewrite E in Es. discriminate.
    + exists LTdStep. split; [reflexivity|]. simpl. rewrite E, Es. discriminate.
  - exists LTdStep. split; [reflexivity|]. simpl. rewrite E. discriminate.
  - exists LTdStep. split; [reflexivity|]. simpl. rewrite E. discriminate.
Qed.

Print Assumptions sub_progress.
Print Assumptions teardown_progress.
