(** The API-level acceptors of GoChannel/Monitor.v are SOUND for Layer A of the model
    (GoChannel/Sub.v): they accept every behaviour of the model.  (The acceptors judge
    implementation histories in the checks; this file shows they do not reject anything the
    verified model can do, so a reported violation is a genuine difference.)

    [trace x s ls] is the API history of subscription x that the label list ls produces from
    state s (only enabled labels emit):
      LRecv / LHandoff t  |->  ARecv x p c true true true   (c the copy, p its publication)
      LAck c |-> AAck x c      LNack c |-> ANack x c      LTdWake |-> ACancel x
    Theorems (every cap0, x, ls)
      one_in_flight_sound        : fx = true: mon_one_in_flight (trace x (sinit cap0 true) ls) = []
      one_in_flight_only_closing : any fx: every violation mon_one_in_flight reports on a model
                                   trace has code V_TWO_IN_FLIGHT_CLOSING (2), never code 1
      one_in_flight_d13          : ... and code 2 does occur for fx = false (the D13 schedule)
      no_dup_sound               : mon_no_dup (trace x (sinit cap0 fx) ls) = [] provided the
                                   LSpawn labels of ls carry pairwise distinct publications
                                   (Layer B: RegSend.sender_unique)
      no_dup_hyp_example         : the hypothesis is satisfiable (D13 schedule). *)
From WM Require Import Base.Prelude Message.Model GoChannel.Sub GoChannel.SubProofs
                       GoChannel.SubInvX GoChannel.SubLive GoChannel.Monitor.

Section Trace.
Variable x : nat.   (* the subscription these events belong to *)

Definition emit (s : sstate) (l : label) : list aev :=
  match l with
  | LRecv => match buf s with
             | c :: _ => [ARecv x (c_pub (copies s c)) c true true true]
             | [] => []
             end
  | LHandoff t => match thr s t with
                  | SSend p c => [ARecv x p c true true true]
                  | _ => []
                  end
  | LAck c => [AAck x c]
  | LNack c => [ANack x c]
  | LTdWake => [ACancel x]
  | _ => []
  end.

Fixpoint trace (s : sstate) (ls : list label) : list aev :=
  match ls with
  | [] => []
  | l :: ls' => match sstep s l with
                | Some s' => emit s l ++ trace s' ls'
                | None => trace s ls'
                end
  end.

(** * C05: one unsettled message *)
(** the acceptor's state describes the model state *)
Record R1 (s : sstate) (m : st1) : Prop := {
  r1_uns : forall q, In q (unsettled m) ->
           fst q = x /\ c_recv (copies s (snd q)) = true /\ c_st (copies s (snd q)) = Unsettled;
  r1_wok : woken (td s) = true -> memb x (closing1 m) = true
}.

Definition ok1 (s : sstate) (vs : list (nat * nat)) : Prop :=
  Forall (fun iv => snd iv = V_TWO_IN_FLIGHT_CLOSING /\ fixed s = false) vs.

Lemma received_out s c : SInv s -> c_recv (copies s c) = true -> c_st (copies s c) = Unsettled ->
  Out s c.
Proof.
  intros I Hr Hu. split; [now apply recv_lt|]. split; [now apply (v_recv _ I)|exact Hu].
Qed.

(** no-event steps keep the relation *)
Lemma r1_frame s s' m : R1 s m ->
  (forall c, c_recv (copies s c) = true ->
             c_recv (copies s' c) = true /\ c_st (copies s' c) = c_st (copies s c)) ->
  (woken (td s') = true -> woken (td s) = true) -> R1 s' m.
Proof.
  intros [A B] Hc Hw. constructor.
  - intros q Hq. destruct (A q Hq) as (A1 & A2 & A3). destruct (Hc _ A2) as [C1 C2].
    repeat split; congruence.
  - intros H. apply B, Hw, H.
Qed.

Lemma memb_true a l : memb a (a :: l) = true.
Proof. unfold memb. simpl. now rewrite Nat.eqb_refl. Qed.

Lemma r1_settle s m c w : R1 s m -> c_recv (copies s c) = true ->
  R1 (set_copy s c (mark_st (copies s c) w))
     (ST1 (filter (fun q => negb (Nat.eqb (fst q) x && Nat.eqb (snd q) c)) (unsettled m))
          (closing1 m) (allclosing m)).
Proof.
  intros [A B] Hr. constructor; simpl; [|exact B].
  intros q Hq. apply filter_In in Hq as [Hq Hf]. destruct (A q Hq) as (A1 & A2 & A3).
  rewrite A1, Nat.eqb_refl in Hf. simpl in Hf. apply negb_true_iff, Nat.eqb_neq in Hf.
  rewrite upd_other by exact Hf. auto.
Qed.
Lemma r1_settle_noop s m c : R1 s m -> c_st (copies s c) <> Unsettled ->
  R1 s (ST1 (filter (fun q => negb (Nat.eqb (fst q) x && Nat.eqb (snd q) c)) (unsettled m))
            (closing1 m) (allclosing m)).
Proof.
  intros [A B] Hr. constructor; simpl; [|exact B].
  intros q Hq. apply filter_In in Hq as [Hq _]. now apply A.
Qed.

(** the verdict at a receive *)
Lemma recv_verdict s m : SInv s -> R1 s m ->
  (forall c', c_recv (copies s c') = true -> Out s c' -> fixed s = false /\ closing s = true) ->
  ok1 s (map (fun v => (0, v))
     match filter (fun q => Nat.eqb (fst q) x) (unsettled m) with
     | [] => []
     | _ => if allclosing m || memb x (closing1 m) then [V_TWO_IN_FLIGHT_CLOSING] else [V_TWO_IN_FLIGHT]
     end).
Proof.
  intros I [A B] Hout. destruct (filter (fun q => Nat.eqb (fst q) x) (unsettled m)) as [|q r] eqn:Ef;
    [constructor|].
  assert (Hq : In q (unsettled m)).
  { assert (In q (filter (fun q => Nat.eqb (fst q) x) (unsettled m))) by (rewrite Ef; now left).
    now apply filter_In in H. }
  destruct (A q Hq) as (_ & A2 & A3). destruct (Hout _ A2 (received_out s _ I A2 A3)) as [Hf Hc].
  rewrite B, orb_true_r.
  - repeat constructor. exact Hf.
  - rewrite (v_closing _ I) in Hc. destruct (td s); simpl in *; congruence.
Qed.

Lemma ok1_reindex s vs i : ok1 s (map (fun v => (0, v)) vs) -> ok1 s (map (fun v => (i, v)) vs).
Proof.
  unfold ok1. rewrite !Forall_forall. intros H iv Hin. apply in_map_iff in Hin as (v & <- & Hv).
  apply (H (0, v)). apply in_map_iff. eauto.
Qed.

Lemma sound1 ls : forall s m i, SX s -> R1 s m ->
  ok1 s (run_mon one_in_flight_step m (trace s ls) i).
Proof.
  induction ls as [|l ls IH]; intros s m i SXs R; simpl; [constructor|].
  destruct (sstep s l) as [s'|] eqn:E; [|now apply IH].
  assert (SXs' : SX s') by (eapply sx_step; eauto). destruct SXs as [I X].
  assert (Hfx : fixed s' = fixed s) by (eapply sstep_fixed; eauto).
  assert (Hok : forall vs, ok1 s' vs -> ok1 s vs).
  { unfold ok1. intros vs. rewrite Hfx. auto. }
  assert (Hnoev : emit s l = [] -> R1 s' m -> ok1 s (run_mon one_in_flight_step m (emit s l ++ trace s' ls) i)).
  { intros -> R'. simpl. apply Hok. now apply IH. }
  destruct l as [t p|  | | |t|t|t|t|t|t| |c|c]; simpl in E.
  - (* LSpawn *) apply Hnoev; [reflexivity|]. sstep_cases E. apply (r1_frame s _ m R); simpl; auto.
  - (* LTdSpawn *) apply Hnoev; [reflexivity|]. sstep_cases E. apply (r1_frame s _ m R); simpl; auto.
    discriminate.
  - (* LTdWake *) sstep_cases E. simpl. apply Hok, IH; [exact SXs'|].
    destruct R as [A B]. constructor; simpl; [exact A|]. intros _. apply memb_true.
  - (* LTdStep *) apply Hnoev; [reflexivity|].
    sstep_cases E; apply (r1_frame s _ m R); simpl; auto;
      match goal with H : td s = _ |- _ => rewrite H; reflexivity end.
  - (* LStep *) apply Hnoev; [reflexivity|].
    sstep_cases E; apply (r1_frame s _ m R); simpl; auto.
    intros c Hr. rewrite upd_other; [auto|]. apply (recv_lt s c I) in Hr. lia.
  - (* LSendBuf *) apply Hnoev; [reflexivity|].
    sstep_cases E; apply (r1_frame s _ m R); simpl; auto.
    intros c' Hr. updt c c'; simpl; auto.
  - (* LHandoff *)
    destruct (thr s t) as [|p|p|p c|p c|p|p] eqn:Et; try discriminate.
    destruct (v_send _ I _ _ _ Et) as (Hlt & Hus & _ & Hcl & Hother).
    assert (Hcc : chan_closed s = false) by (destruct (v_closed _ I) as [H1 H2]; congruence).
    rewrite Hcc in E. destruct (buf s) eqn:Eb; try discriminate. inversion E; subst s'; clear E.
    simpl. rewrite Et. simpl. apply Forall_app. split.
    + apply ok1_reindex. apply (recv_verdict s m I R). intros c' _. apply Hother.
    + apply Hok, IH; [exact SXs'|]. destruct R as [A B]. constructor; simpl; [|exact B].
      intros q [<-|Hq]; simpl.
      * rewrite upd_same. simpl. repeat split.
        pose proof (unsent_unrecv s c I Hus) as Hr.
        destruct (c_st (copies s c)) eqn:Est; [reflexivity| |];
          rewrite (x_settled s X c) in Hr by congruence; discriminate.
      * destruct (A q Hq) as (A1 & A2 & A3).
        destruct (Nat.eq_dec (snd q) c) as [Eq|Nq];
          [rewrite Eq, (unsent_unrecv s _ I Hus) in A2; discriminate|].
        rewrite upd_other by exact Nq. auto.
  - (* LSeeClosing *) apply Hnoev; [reflexivity|].
    sstep_cases E; apply (r1_frame s _ m R); simpl; auto.
  - (* LSeeAcked *) apply Hnoev; [reflexivity|].
    sstep_cases E; apply (r1_frame s _ m R); simpl; auto.
  - (* LSeeNacked *) apply Hnoev; [reflexivity|].
    sstep_cases E; apply (r1_frame s _ m R); simpl; auto.
  - (* LRecv *)
    destruct (buf s) as [|c b] eqn:Eb; try discriminate. inversion E; subst s'; clear E.
    simpl. rewrite Eb. simpl.
    assert (Hin : In c (buf s)) by (rewrite Eb; now left).
    destruct (v_buf _ I c Hin) as [Hlt Hsent].
    pose proof (x_buf_unrecv s X c Hin) as Hur.
    assert (Hu : c_st (copies s c) = Unsettled).
    { destruct (c_st (copies s c)) eqn:Est; [reflexivity| |];
        rewrite (x_settled s X c) in Hur by congruence; discriminate. }
    assert (HoutC : Out s c) by (repeat split; assumption).
    apply Forall_app. split.
    + apply ok1_reindex. apply (recv_verdict s m I R).
      intros c' Hr' Ho'. destruct (fixed s) eqn:Ef.
      * (* repaired loop: c' = c, but c' was received and c was not *)
        exfalso. assert (c' = c) by (apply (v_one _ I); auto). congruence.
      * split; [reflexivity|]. destruct (closing s) eqn:Ec; [reflexivity|].
        exfalso. assert (c' = c) by (apply (v_one _ I); auto). congruence.
    + apply Hok, IH; [exact SXs'|]. destruct R as [A B]. constructor; simpl; [|exact B].
      intros q [<-|Hq]; simpl.
      * rewrite upd_same. simpl. auto.
      * destruct (A q Hq) as (A1 & A2 & A3).
        destruct (Nat.eq_dec (snd q) c) as [Eq|Nq]; [rewrite Eq in A2; congruence|].
        rewrite upd_other by exact Nq. auto.
  - (* LAck *)
    destruct (c_recv (copies s c)) eqn:Er; try discriminate. simpl.
    destruct (c_st (copies s c)) eqn:Est; inversion E; subst s'; clear E; apply Hok, IH; auto.
    + now apply r1_settle.
    + apply r1_settle_noop; [exact R|congruence].
    + apply r1_settle_noop; [exact R|congruence].
  - (* LNack *)
    destruct (c_recv (copies s c)) eqn:Er; try discriminate. simpl.
    destruct (c_st (copies s c)) eqn:Est; inversion E; subst s'; clear E; apply Hok, IH; auto.
    + now apply r1_settle.
    + apply r1_settle_noop; [exact R|congruence].
    + apply r1_settle_noop; [exact R|congruence].
Qed.

Lemma r1_init cap0 fx : R1 (sinit cap0 fx) (ST1 [] [] false).
Proof. constructor; simpl; [tauto|discriminate]. Qed.

(** every violation reported on a model trace has code 2 and needs the unrepaired loop *)
Theorem one_in_flight_verdicts cap0 fx ls iv :
  In iv (mon_one_in_flight (trace (sinit cap0 fx) ls)) ->
  snd iv = V_TWO_IN_FLIGHT_CLOSING /\ fx = false.
Proof.
  intros Hin. pose proof (sound1 ls (sinit cap0 fx) (ST1 [] [] false) 0 (sx_reach cap0 fx [])
                                (r1_init cap0 fx)) as H.
  unfold ok1 in H. rewrite Forall_forall in H. exact (H iv Hin).
Qed.
Theorem one_in_flight_sound cap0 ls : mon_one_in_flight (trace (sinit cap0 true) ls) = [].
Proof.
  destruct (mon_one_in_flight (trace (sinit cap0 true) ls)) as [|iv r] eqn:E; [reflexivity|].
  destruct (one_in_flight_verdicts cap0 true ls iv) as [_ H]; [rewrite E; now left|discriminate].
Qed.
Theorem one_in_flight_only_closing cap0 fx ls iv :
  In iv (mon_one_in_flight (trace (sinit cap0 fx) ls)) -> snd iv = V_TWO_IN_FLIGHT_CLOSING.
Proof. intros H. now apply one_in_flight_verdicts in H. Qed.
End Trace.

(** code 2 does occur on the pinned loop: D13 (the 2nd receive is event 2 of the history) *)
Example one_in_flight_d13 :
  mon_one_in_flight (trace 7 (sinit 0 false) d13_schedule) = [(2, V_TWO_IN_FLIGHT_CLOSING)].
Proof. vm_compute. reflexivity. Qed.

(** * C04: a message is seen again only after a Nack *)
Definition spc_pub (p : spc) : option pubid :=
  match p with
  | SNone => None
  | SWant p | SHead p | SSend p _ | SWait p _ | SExit p | SDone p => Some p
  end.
(** the publications of the LSpawn labels of a label list *)
Definition spawn_pubs (ls : list label) : list pubid :=
  flat_map (fun l => match l with LSpawn _ p => [p] | _ => [] end) ls.

(** every copy carries the publication of its Sender thread; no two Sender threads carry the
    same publication, now or later ([rest]: the labels still to come) *)
Record Y (s : sstate) (rest : list label) : Prop := {
  y_copy : forall c, c < next s ->
           spc_pub (thr s (c_thr (copies s c))) = Some (c_pub (copies s c));
  y_uniq : forall t1 t2 p, spc_pub (thr s t1) = Some p -> spc_pub (thr s t2) = Some p -> t1 = t2;
  y_fresh : forall t p, spc_pub (thr s t) = Some p -> ~ In p (spawn_pubs rest);
  y_nodup : NoDup (spawn_pubs rest)
}.

Lemma spawn_pubs_cons l rest :
  spawn_pubs (l :: rest) = match l with LSpawn _ p => [p] | _ => [] end ++ spawn_pubs rest.
Proof. reflexivity. Qed.

Lemma y_skip s l rest : Y s (l :: rest) -> Y s rest.
Proof.
  intros [A B C D]. rewrite spawn_pubs_cons in *. constructor; auto.
  - intros t p Hp Hin. apply (C t p Hp). apply in_or_app. now right.
  - destruct l; simpl in D; auto. now inversion D.
Qed.

Lemma y_frame s s' l rest : Y s (l :: rest) ->
  (forall t, spc_pub (thr s' t) = spc_pub (thr s t)) ->
  (forall c, c < next s' ->
     (c < next s /\ c_thr (copies s' c) = c_thr (copies s c)
      /\ c_pub (copies s' c) = c_pub (copies s c))
     \/ spc_pub (thr s' (c_thr (copies s' c))) = Some (c_pub (copies s' c))) ->
  Y s' rest.
Proof.
  intros Hy Ht Hc. apply y_skip in Hy. destruct Hy as [A B C D]. constructor; auto.
  - intros c Hlt. destruct (Hc c Hlt) as [(H1 & H2 & H3)|H]; [|exact H].
    rewrite Ht, H2, H3. now apply A.
  - intros t1 t2 p. rewrite !Ht. apply B.
  - intros t p. rewrite Ht. apply C.
Qed.

Lemma y_step s l s' rest : SInv s -> Y s (l :: rest) -> sstep s l = Some s' -> Y s' rest.
Proof.
  intros I Hy E.
  destruct l as [t p|  | | |t|t|t|t|t|t| |c|c]; simpl in E.
  - (* LSpawn *)
    destruct (thr s t) eqn:Et; try discriminate. inversion E; subst s'; clear E.
    destruct Hy as [A B C D]. rewrite spawn_pubs_cons in *. simpl in C, D.
    inversion D as [|? ? Dn Dd]; subst. constructor; simpl; auto.
    + intros c Hlt. specialize (A c Hlt).
      destruct (Nat.eq_dec (c_thr (copies s c)) t) as [Eq|Nq];
        [rewrite Eq, Et in A; discriminate|now rewrite upd_other].
    + intros t1 t2 q.
      destruct (Nat.eq_dec t1 t) as [->|N1]; destruct (Nat.eq_dec t2 t) as [->|N2]; auto;
        rewrite ?upd_same, ?upd_other by assumption; simpl.
      * intros [= <-] H2. exfalso. apply (C t2 p H2). now left.
      * intros H1 [= <-]. exfalso. apply (C t1 p H1). now left.
      * apply B.
    + intros t1 q. updt t t1; simpl.
      * intros [= <-]. exact Dn.
      * intros H1 Hin. apply (C t1 q H1). now right.
  - sstep_cases E; apply (y_frame s _ _ rest Hy); simpl; auto.
  - sstep_cases E; apply (y_frame s _ _ rest Hy); simpl; auto.
  - sstep_cases E; apply (y_frame s _ _ rest Hy); simpl; auto.
  - (* LStep *)
    destruct (thr s t) as [|p|p|p c|p c|p|p] eqn:Et; try discriminate.
    + sstep_cases E. apply (y_frame s _ _ rest Hy); simpl; auto.
      intros t'. updt t t'; [now rewrite Et|reflexivity].
    + assert (Hexit : Y (set_thr s t (SExit p)) rest).
      { apply (y_frame s _ _ rest Hy); simpl; auto.
        intros t'. updt t t'; [now rewrite Et|reflexivity]. }
      destruct (closedf s); [inversion E; subst; exact Hexit|].
      destruct (fixed s && closing s); inversion E; subst; [exact Hexit|].
      apply (y_frame s _ _ rest Hy); simpl.
      * intros t'. updt t t'; [now rewrite Et|reflexivity].
      * intros c Hlt. destruct (Nat.eq_dec c (next s)) as [->|Nc].
        -- right. rewrite !upd_same. simpl. rewrite ?upd_same. reflexivity.
        -- left. rewrite upd_other by exact Nc. repeat split; auto. lia.
    + sstep_cases E. apply (y_frame s _ _ rest Hy); simpl; auto.
      intros t'. updt t t'; [now rewrite Et|reflexivity].
  - (* LSendBuf *)
    destruct (thr s t) as [|p|p|p c|p c|p|p] eqn:Et; try discriminate.
    sstep_cases E; apply (y_frame s _ _ rest Hy); simpl; auto;
      try (intros t'; updt t t'; [now rewrite Et|reflexivity]).
    intros c' Hlt. left. updt c c'; simpl; auto.
  - (* LHandoff *)
    destruct (thr s t) as [|p|p|p c|p c|p|p] eqn:Et; try discriminate.
    sstep_cases E; apply (y_frame s _ _ rest Hy); simpl; auto;
      try (intros t'; updt t t'; [now rewrite Et|reflexivity]).
    intros c' Hlt. left. updt c c'; simpl; auto.
  - (* LSeeClosing *)
    destruct (closing s); try discriminate.
    destruct (thr s t) as [|p|p|p c|p c|p|p] eqn:Et; try discriminate;
      inversion E; subst; apply (y_frame s _ _ rest Hy); simpl; auto;
      intros t'; (updt t t'; [now rewrite Et|reflexivity]).
  - destruct (thr s t) as [|p|p|p c|p c|p|p] eqn:Et; try discriminate.
    sstep_cases E. apply (y_frame s _ _ rest Hy); simpl; auto.
    intros t'. updt t t'; [now rewrite Et|reflexivity].
  - destruct (thr s t) as [|p|p|p c|p c|p|p] eqn:Et; try discriminate.
    sstep_cases E. apply (y_frame s _ _ rest Hy); simpl; auto.
    intros t'. updt t t'; [now rewrite Et|reflexivity].
  - (* LRecv *)
    sstep_cases E. apply (y_frame s _ _ rest Hy); simpl; auto.
    intros c' Hlt. left. updt c c'; simpl; auto.
  - (* LAck *)
    sstep_cases E; try (apply (y_skip _ _ _ Hy)); apply (y_frame s _ _ rest Hy); simpl; auto.
    intros c' Hlt. left. updt c c'; simpl; auto.
  - (* LNack *)
    sstep_cases E; try (apply (y_skip _ _ _ Hy)); apply (y_frame s _ _ rest Hy); simpl; auto.
    intros c' Hlt. left. updt c c'; simpl; auto.
Qed.

Section NoDup.
Variable x : nat.

Definition stat (s : sstate) (c : cid) : dstat :=
  match c_st (copies s c) with Unsettled => DDelivered c | Nacked => DNacked | Acked => DAcked end.
Definition entry (s : sstate) (c : cid) : (nat * nat) * dstat :=
  ((x, c_pub (copies s c)), stat s c).

(** the acceptor's table is the receive history (latest first) with the current settlements *)
Definition R2 (s : sstate) (m : st2) : Prop :=
  exists cs, m = map (entry s) cs /\ forall c, In c cs -> c_recv (copies s c) = true.

Lemma r2_frame s s' m : R2 s m ->
  (forall c, c_recv (copies s c) = true ->
     c_recv (copies s' c) = true /\ c_st (copies s' c) = c_st (copies s c)
     /\ c_pub (copies s' c) = c_pub (copies s c)) -> R2 s' m.
Proof.
  intros (cs & -> & Hr) Hc. exists cs. split.
  - apply map_ext_in. intros c Hin. destruct (Hc c (Hr c Hin)) as (_ & H2 & H3).
    unfold entry, stat. now rewrite H2, H3.
  - intros c Hin. now apply Hc, Hr.
Qed.

Lemma get2_history s cs p :
  get2 (map (entry s) cs) x p = None
  \/ exists c1, In c1 cs /\ c_pub (copies s c1) = p
                /\ get2 (map (entry s) cs) x p = Some (stat s c1).
Proof.
  induction cs as [|c cs IH]; simpl; [now left|]. rewrite Nat.eqb_refl. simpl.
  destruct (Nat.eqb p (c_pub (copies s c))) eqn:Ep.
  - apply Nat.eqb_eq in Ep. right. exists c. auto.
  - destruct IH as [IH|(c1 & H1 & H2 & H3)]; [now left|]. right. exists c1. auto.
Qed.

Lemma set_by_copy_settle s cs c w d :
  c_st (copies s c) = Unsettled ->
  (d = match w with Unsettled => DDelivered c | Nacked => DNacked | Acked => DAcked end) ->
  set_by_copy (map (entry s) cs) x c d
  = map (entry (set_copy s c (mark_st (copies s c) w))) cs.
Proof.
  intros Hu Hd. unfold set_by_copy. rewrite map_map. apply map_ext. intros c1.
  unfold entry, stat. simpl. destruct (Nat.eq_dec c1 c) as [->|Nc].
  - rewrite upd_same, Hu. simpl. rewrite !Nat.eqb_refl. simpl. now subst d.
  - rewrite upd_other by exact Nc. destruct (c_st (copies s c1)); try reflexivity.
    rewrite Nat.eqb_refl. simpl. apply Nat.eqb_neq in Nc. rewrite (Nat.eqb_sym c c1), Nc.
    reflexivity.
Qed.
Lemma set_by_copy_noop s cs c d : c_st (copies s c) <> Unsettled ->
  set_by_copy (map (entry s) cs) x c d = map (entry s) cs.
Proof.
  intros Hu. unfold set_by_copy. rewrite map_map. apply map_ext. intros c1.
  unfold entry, stat. destruct (c_st (copies s c1)) eqn:E1; try reflexivity.
  rewrite Nat.eqb_refl. simpl. destruct (Nat.eqb c c1) eqn:Ec; [|reflexivity].
  apply Nat.eqb_eq in Ec. subst. congruence.
Qed.

(** the verdict at a receive of copy c: every earlier received copy of the same publication
    belongs to the same Sender, is older, hence Nacked *)
Lemma recv_no_dup s rest cs c : SX s -> Y s rest -> c < next s ->
  c_recv (copies s c) = false ->
  (forall c1, In c1 cs -> c_recv (copies s c1) = true) ->
  match get2 (map (entry s) cs) x (c_pub (copies s c)) with
  | None | Some DNacked => @nil nat
  | Some (DDelivered _) => [V_DUP_WITHOUT_NACK]
  | Some DAcked => [V_DUP_AFTER_ACK]
  end = [].
Proof.
  intros [I X] Hy Hlt Hur Hr.
  destruct (get2_history s cs (c_pub (copies s c))) as [->|(c1 & H1 & H2 & ->)]; [reflexivity|].
  assert (Hr1 : c_recv (copies s c1) = true) by now apply Hr.
  assert (Hlt1 : c1 < next s) by now apply recv_lt.
  assert (Hne : c1 <> c) by congruence.
  assert (Et : c_thr (copies s c1) = c_thr (copies s c)).
  { apply (y_uniq s rest Hy _ _ (c_pub (copies s c))); [rewrite <- H2|]; now apply (y_copy s rest Hy). }
  assert (Hu : c_st (copies s c) = Unsettled).
  { destruct (c_st (copies s c)) eqn:Est; [reflexivity| |];
      rewrite (x_settled s X c) in Hur by congruence; discriminate. }
  destruct (Nat.lt_ge_cases c1 c) as [Hl|Hg].
  - unfold stat. now rewrite (v_dup _ I c1 c Hl Hlt Et).
  - assert (Hl : c < c1) by lia. rewrite (v_dup _ I c c1 Hl Hlt1 (eq_sym Et)) in Hu. discriminate.
Qed.

Lemma sound2 ls : forall s m i, SX s -> Y s ls -> R2 s m ->
  run_mon no_dup_step m (trace x s ls) i = [].
Proof.
  induction ls as [|l ls IH]; intros s m i SXs Hy R; simpl; [reflexivity|].
  destruct (sstep s l) as [s'|] eqn:E; [|apply IH; auto; eapply y_skip; eauto].
  assert (SXs' : SX s') by (eapply sx_step; eauto). pose proof SXs as [I X].
  assert (Hy' : Y s' ls) by (eapply y_step; eauto).
  assert (Hnoev : emit x s l = [] -> R2 s' m ->
                  run_mon no_dup_step m (emit x s l ++ trace x s' ls) i = []).
  { intros -> R'. simpl. now apply IH. }
  destruct l as [t p|  | | |t|t|t|t|t|t| |c|c]; simpl in E.
  - apply Hnoev; [reflexivity|]. sstep_cases E. apply (r2_frame s _ m R); simpl; auto.
  - apply Hnoev; [reflexivity|]. sstep_cases E. apply (r2_frame s _ m R); simpl; auto.
  - (* LTdWake: ACancel is ignored by this acceptor *)
    sstep_cases E. simpl. apply IH; auto.
  - apply Hnoev; [reflexivity|]. sstep_cases E; apply (r2_frame s _ m R); simpl; auto.
  - apply Hnoev; [reflexivity|]. sstep_cases E; apply (r2_frame s _ m R); simpl; auto.
    intros c Hr. rewrite upd_other; [auto|]. apply (recv_lt s c I) in Hr. lia.
  - apply Hnoev; [reflexivity|]. sstep_cases E; apply (r2_frame s _ m R); simpl; auto.
    intros c' Hr. updt c c'; simpl; auto.
  - (* LHandoff *)
    destruct (thr s t) as [|p|p|p c|p c|p|p] eqn:Et; try discriminate.
    destruct (v_send _ I _ _ _ Et) as (Hlt & Hus & Hown & Hcl & _).
    assert (Hcc : chan_closed s = false) by (destruct (v_closed _ I) as [H1 H2]; congruence).
    rewrite Hcc in E. destruct (buf s) eqn:Eb; try discriminate. inversion E; subst s'; clear E.
    simpl. rewrite Et. simpl.
    pose proof (unsent_unrecv s c I Hus) as Hur.
    assert (Hp : c_pub (copies s c) = p).
    { pose proof (y_copy s _ Hy c Hlt) as Hc. rewrite Hown, Et in Hc. simpl in Hc. congruence. }
    destruct R as (cs & -> & Hr).
    pose proof (recv_no_dup s _ cs c SXs Hy Hlt Hur Hr) as Hv. rewrite Hp in Hv. rewrite Hv. simpl.
    apply IH; auto. exists (c :: cs). split.
    + simpl. f_equal.
      * unfold entry, stat. simpl. rewrite upd_same. simpl. rewrite Hp.
        destruct (c_st (copies s c)) eqn:Est; [reflexivity| |];
          rewrite (x_settled s X c) in Hur by congruence; discriminate.
      * apply map_ext_in. intros c1 Hin. unfold entry, stat. simpl.
        rewrite upd_other; [reflexivity|]. intros ->. rewrite (Hr c Hin) in Hur. discriminate.
    + intros c1 [<-|Hin]; simpl; [now rewrite upd_same|].
      destruct (Nat.eq_dec c1 c) as [->|Nc]; [now rewrite upd_same|]. rewrite upd_other by exact Nc.
      now apply Hr.
  - apply Hnoev; [reflexivity|]. sstep_cases E; apply (r2_frame s _ m R); simpl; auto.
  - apply Hnoev; [reflexivity|]. sstep_cases E; apply (r2_frame s _ m R); simpl; auto.
  - apply Hnoev; [reflexivity|]. sstep_cases E; apply (r2_frame s _ m R); simpl; auto.
  - (* LRecv *)
    destruct (buf s) as [|c b] eqn:Eb; try discriminate. inversion E; subst s'; clear E.
    simpl. rewrite Eb. simpl.
    assert (Hin : In c (buf s)) by (rewrite Eb; now left).
    destruct (v_buf _ I c Hin) as [Hlt Hsent].
    pose proof (x_buf_unrecv s X c Hin) as Hur.
    destruct R as (cs & -> & Hr).
    rewrite (recv_no_dup s _ cs c SXs Hy Hlt Hur Hr). simpl.
    apply IH; auto. exists (c :: cs). split.
    + simpl. f_equal.
      * unfold entry, stat. simpl. rewrite upd_same. simpl.
        destruct (c_st (copies s c)) eqn:Est; [reflexivity| |];
          rewrite (x_settled s X c) in Hur by congruence; discriminate.
      * apply map_ext_in. intros c1 Hin1. unfold entry, stat. simpl.
        rewrite upd_other; [reflexivity|]. intros ->. rewrite (Hr c Hin1) in Hur. discriminate.
    + intros c1 [<-|Hin1]; simpl; [now rewrite upd_same|].
      destruct (Nat.eq_dec c1 c) as [->|Nc]; [now rewrite upd_same|]. rewrite upd_other by exact Nc.
      now apply Hr.
  - (* LAck *)
    destruct (c_recv (copies s c)) eqn:Er; try discriminate. simpl.
    destruct R as (cs & -> & Hr).
    destruct (c_st (copies s c)) eqn:Est; inversion E; subst s'; clear E; apply IH; auto.
    + exists cs. split; [now apply set_by_copy_settle|].
      intros c1 Hin. simpl. updt c c1; simpl; auto.
    + exists cs. split; [apply set_by_copy_noop; congruence|exact Hr].
    + exists cs. split; [apply set_by_copy_noop; congruence|exact Hr].
  - (* LNack *)
    destruct (c_recv (copies s c)) eqn:Er; try discriminate. simpl.
    destruct R as (cs & -> & Hr).
    destruct (c_st (copies s c)) eqn:Est; inversion E; subst s'; clear E; apply IH; auto.
    + exists cs. split; [now apply set_by_copy_settle|].
      intros c1 Hin. simpl. updt c c1; simpl; auto.
    + exists cs. split; [apply set_by_copy_noop; congruence|exact Hr].
    + exists cs. split; [apply set_by_copy_noop; congruence|exact Hr].
Qed.

Lemma y_init cap0 fx ls : NoDup (spawn_pubs ls) -> Y (sinit cap0 fx) ls.
Proof. intros H. constructor; simpl; [lia|discriminate|discriminate|exact H]. Qed.

Theorem no_dup_sound cap0 fx ls : NoDup (spawn_pubs ls) ->
  mon_no_dup (trace x (sinit cap0 fx) ls) = [].
Proof.
  intros H. apply sound2; [apply (sx_reach cap0 fx [])|now apply y_init|].
  exists []. split; [reflexivity|]. intros c [].
Qed.
End NoDup.

(** the hypothesis is satisfiable, and the statement is not vacuous: the D13 schedule has two
    Senders for two publications and two receives *)
Example no_dup_hyp_example :
  NoDup (spawn_pubs d13_schedule)
  /\ mon_no_dup (trace 7 (sinit 0 false) d13_schedule) = []
  /\ length (trace 7 (sinit 0 false) d13_schedule) = 3.
Proof.
  split; [|split; vm_compute; reflexivity].
  vm_compute. repeat constructor; simpl; intuition discriminate.
Qed.
(** ... and it is needed: two Senders for the SAME publication are a duplicate without Nack *)
Example no_dup_hyp_needed :
  mon_no_dup (trace 7 (sinit 1 true)
                [LSpawn 0 5; LSpawn 1 5; LStep 0; LStep 0; LSendBuf 0; LRecv; LAck 0;
                 LSeeAcked 0; LStep 0; LStep 1; LStep 1; LSendBuf 1; LRecv])
  = [(2, V_DUP_AFTER_ACK)].
Proof. vm_compute. reflexivity. Qed.

Print Assumptions one_in_flight_sound.
Print Assumptions one_in_flight_only_closing.
Print Assumptions no_dup_sound.
