(** The API-level acceptors of GoChannel/Monitor.v are SOUND for Layer A of the model
    (GoChannel/Sub.v): they accept every behaviour of the model.  (The acceptors judge
    implementation histories in the checks; this file shows they do not reject anything the
    verified model can do, so a reported violation is a genuine difference.)

    [trace x s ls] is the API history of subscription x that the label list ls produces from
    state s (only enabled labels emit):
      LRecv / LHandoff t  |->  ARecv x p c true true true   (c the copy, p its publication)
      LAck c |-> AAck x c      LNack c |-> ANack x c      LTdWake |-> ACancel x
    Theorems (every cap0, x, ls)
      one_in_flight_sound        : fx = true: mon_one_in_flight (trace x (sinit cap0 true) ls) = []
      one_in_flight_only_closing : any fx: every violation mon_one_in_flight reports on a model
                                   trace has code V_TWO_IN_FLIGHT_CLOSING (2), never code 1
      one_in_flight_d13          : ... and code 2 does occur for fx = false (the D13 schedule)
      no_dup_sound               : mon_no_dup (trace x (sinit cap0 fx) ls) = [] provided the
                                   LSpawn labels of ls carry pairwise distinct publications
                                   (Layer B: RegSend.sender_unique)
      no_dup_hyp_example         : the hypothesis is satisfiable (D13 schedule). *)
From WM Require Import Base.Prelude Message.Model GoChannel.Sub GoChannel.SubProofs
                       GoChannel.SubInvX GoChannel.SubLive GoChannel.Monitor.

Section Trace.
Variable x : nat.   (* the subscription these events belong to *)

Definition emit (s : sstate) (l : label) : list aev :=
  match l with
  | LRecv => match buf s with
             | c :: _ => [ARecv x (c_pub (copies s c)) c true true true]
             | [] => []
             end
  | LHandoff t => match thr s t with
                  | SSend p c => [ARecv x p c true true true]
                  | _ => []
                  end
  | LAck c => [AAck x c]
  | LNack c => [ANack x c]
  | LTdWake => [ACancel x]
  | _ => []
  end.

Fixpoint trace (s : sstate) (ls : list label) : list aev :=
  match ls with
  | [] => []
  | l :: ls' => match sstep s l with
                | Some s' => emit s l ++ trace s' ls'
                | None => trace s ls'
                end
  end.

(** * C05: one unsettled message *)
(** the acceptor's state describes the model state *)
Record R1 (s : sstate) (m : st1) : Prop := {
  r1_uns : forall q, In q (unsettled m) ->
           fst q = x /\ c_recv (copies s (snd q)) = true /\ c_st (copies s (snd q)) = Unsettled;
  r1_wok : woken (td s) = true -> memb x (closing1 m) = true
}.

Definition ok1 (s : sstate) (vs : list (nat * nat)) : Prop :=
  Forall (fun iv => snd iv = V_TWO_IN_FLIGHT_CLOSING /\ fixed s = false) vs.

Lemma received_out s c : SInv s -> c_recv (copies s c) = true -> c_st (copies s c) = Unsettled ->
  Out s c.
Proof.
  intros I Hr Hu. split; [now apply recv_lt|]. split; [now apply (v_recv _ I)|exact Hu].
Qed.

(** no-event steps keep the relation *)
Lemma r1_frame s s' m : R1 s m ->
  (forall c, c_recv (copies s c) = true ->
             c_recv (copies s' c) = true /\ c_st (copies s' c) = c_st (copies s c)) ->
  (woken (td s') = true -> woken (td s) = true) -> R1 s' m.
Proof.
  intros [A B] Hc Hw. constructor.
  - intros q Hq. destruct (A q Hq) as (A1 & A2 & A3). destruct (Hc _ A2) as [C1 C2].
    repeat split; congruence.
  - intros H. apply B, Hw, H.
Qed.

Lemma memb_true a l : memb a (a :: l) = true.
Proof. unfold memb. simpl. now rewrite Nat.eqb_refl. Qed.

Lemma r1_settle s m c w : R1 s m -> c_recv (copies s c) = true ->
  R1 (set_copy s c (mark_st (copies s c) w))
     (ST1 (filter (fun q => negb (Nat.eqb (fst q) x && Nat.eqb (snd q) c)) (unsettled m))
          (closing1 m) (allclosing m)).
Proof.
  intros [A B] Hr. constructor; simpl; [|exact B].
  intros q Hq. apply filter_In in Hq as [Hq Hf]. destruct (A q Hq) as (A1 & A2 & A3).
  rewrite A1, Nat.eqb_refl in Hf. simpl in Hf. apply negb_true_iff, Nat.eqb_neq in Hf.
  rewrite upd_other by exact Hf. auto.
Qed.
Lemma r1_settle_noop s m c : R1 s m -> c_st (copies s c) <> Unsettled ->
  R1 s (ST1 (filter (fun q => negb (Nat.eqb (fst q) x && Nat.eqb (snd q) c)) (unsettled m))
            (closing1 m) (allclosing m)).
Proof.
  intros [A B] Hr. constructor; simpl; [|exact B].
  intros q Hq. apply filter_In in Hq as [Hq _]. now apply A.
Qed.

(** the verdict at a receive *)
Lemma recv_verdict s m : SInv s -> R1 s m ->
  (forall c', c_recv (copies s c') = true -> Out s c' -> fixed s = false /\ closing s = true) ->
  ok1 s (map (fun v => (0, v))
     match filter (fun q => Nat.eqb (fst q) x) (unsettled m) with
     | [] => []
     | _ => if allclosing m || memb x (closing1 m) then [V_TWO_IN_FLIGHT_CLOSING] else [V_TWO_IN_FLIGHT]
     end).
Proof.
  intros I [A B] Hout. destruct (filter (fun q => Nat.eqb (fst q) x) (unsettled m)) as [|q r] eqn:Ef;
    [constructor|].
  assert (Hq : In q (unsettled m)).
  { assert (In q (filter (fun q => Nat.eqb (fst q) x) (unsettled m))) by (rewrite Ef; now left).
    now apply filter_In in H. }
  destruct (A q Hq) as (_ & A2 & A3). destruct (Hout _ A2 (received_out s _ I A2 A3)) as [Hf Hc].
  rewrite B, orb_true_r.
  - repeat constructor. exact Hf.
  - rewrite (v_closing _ I) in Hc. destruct (td s); simpl in *; congruence.
Qed.

Lemma ok1_reindex s vs i : ok1 s (map (fun v => (0, v)) vs) -> ok1 s (map (fun v => (i, v)) vs).
Proof.
  unfold ok1. rewrite !Forall_forall. intros H iv Hin. apply in_map_iff in Hin as (v & <- & Hv).
  apply (H (0, v)). apply in_map_iff. eauto.
Qed.

Lemma sound1 ls : forall s m i, SX s -> R1 s m ->
  ok1 s (run_mon one_in_flight_step m (trace s ls) i).
Proof.
  induction ls as [|l ls IH]; intros s m i SXs R; simpl; [constructor|].
  destruct (sstep s l) as [s'|] eqn:E; [|now apply IH].
  assert (SXs' : SX s') by (eapply sx_step; eauto). destruct SXs as [I X].
  assert (Hfx : fixed s' = fixed s) by (eapply sstep_fixed; eauto).
  assert (Hok : forall vs, ok1 s' vs -> ok1 s vs).
  { unfold ok1. intros vs. rewrite Hfx. auto. }
  assert (Hnoev : emit s l = [] -> R1 s' m -> ok1 s (run_mon one_in_flight_step m (emit s l ++ trace s' ls) i)).
  { intros -> R'. simpl. apply Hok. now apply IH. }
  destruct l as [t p|  | | |t|t|t|t|t|t| |c|c]; simpl in E.
  - (* LSpawn *) apply Hnoev; [reflexivity|]. sstep_cases E. apply (r1_frame s _ m R); simpl; auto.
  - (* LTdSpawn *) apply Hnoev; [reflexivity|]. sstep_cases E. apply (r1_frame s _ m R); simpl; auto.
    discriminate.
  - (* LTdWake *) sstep_cases E. simpl. apply Hok, IH; [exact SXs'|].
    destruct R as [A B]. constructor; simpl; [exact A|]. intros _. apply memb_true.
  - (* LTdStep *) apply Hnoev; [reflexivity|].
    sstep_cases E; apply (r1_frame s _ m R); simpl; auto;
      match goal with H : td s = _ |- _ => rewrite H; reflexivity end.
  - (* LStep *) apply Hnoev; [reflexivity|].
    sstep_cases E; apply (r1_frame s _ m R); simpl; auto.
    intros c Hr. rewrite upd_other; [auto|]. apply (recv_lt s c I) in Hr. lia.
  - (* LSendBuf *) apply Hnoev; [reflexivity|].
    sstep_cases E; apply (r1_frame s _ m R); simpl; auto.
    intros c' Hr. updt c c'; simpl; auto.
  - (* LHandoff *)
    destruct (thr s t) as [|p|p|p c|p c|p|p] eqn:Et; try discriminate.
    destruct (v_send _ I _ _ _ Et) as (Hlt & Hus & _ & Hcl & Hother).
    assert (Hcc : chan_closed s = false) by (destruct (v_closed _ I) as [H1 H2]; congruence).
    rewrite Hcc in E. destruct (buf s) eqn:Eb; try discriminate. inversion E; subst s'; clear E.
    simpl. rewrite Et. simpl. apply Forall_app. split.
    + apply ok1_reindex. apply (recv_verdict s m I R). intros c' _. apply Hother.
    + apply Hok, IH; [exact SXs'|]. destruct R as [A B]. constructor; simpl; [|exact B].
      intros q [<-|Hq]; simpl.
      * rewrite upd_same. simpl. repeat split.
        pose proof (unsent_unrecv s c I Hus) as Hr.
        destruct (c_st (copies s c)) eqn:Est; [reflexivity| |];
          rewrite (x_settled s X c) in Hr by congruence; discriminate.
      * destruct (A q Hq) as (A1 & A2 & A3).
        destruct (Nat.eq_dec (snd q) c) as [Eq|Nq];
          [rewrite Eq, (unsent_unrecv s _ I Hus) in A2; discriminate|].
        rewrite upd_other by exact Nq. auto.
  - (* LSeeClosing *) apply Hnoev; [reflexivity|].
    sstep_cases E; apply (r1_frame s _ m R); simpl; auto.
  - (* LSeeAcked *) apply Hnoev; [reflexivity|].
    sstep_cases E; apply (r1_frame s _ m R); simpl; auto.
  - (* LSeeNacked *) apply Hnoev; [reflexivity|].
    sstep_cases E; apply (r1_frame s _ m R); simpl; auto.
  - (* LRecv *)
    destruct (buf s) as [|c b] eqn:Eb; try discriminate. inversion E; subst s'; clear E.
    simpl. rewrite Eb. simpl.
    assert (Hin : In c (buf s)) by (rewrite Eb; now left).
    destruct (v_buf _ I c Hin) as [Hlt Hsent].
    pose proof (x_buf_unrecv s X c Hin) as Hur.
    assert (Hu : c_st (copies s c) = Unsettled).
    { destruct (c_st (copies s c)) eqn:Est; [reflexivity| |];
        rewrite (x_settled s X c) in Hur by congruence; discriminate. }
    assert (HoutC : Out s c) by (repeat split; assumption).
    apply Forall_app. split.
    + apply ok1_reindex. apply (recv_verdict s m I R).
      intros c' Hr' Ho'. destruct (fixed s) eqn:Ef.
      * (* repaired loop: c' = c, but c' was received and c was not *)
        exfalso. assert (c' = c) by (apply (v_one _ I); auto). congruence.
      * split; [reflexivity|]. destruct (closing s) eqn:Ec; [reflexivity|].
        exfalso. assert (c' = c) by (apply (v_one _ I); auto). congruence.
    + apply Hok, IH; [exact SXs'|]. destruct R as [A B]. constructor; simpl; [|exact B].
      intros q [<-|Hq]; simpl.
      * rewrite upd_same. simpl. auto.
      * destruct (A q Hq) as (A1 & A2 & A3).
        destruct (Nat.eq_dec (snd q) c) as [Eq|Nq]; [rewrite Eq in A2; congruence|].
        rewrite upd_other by exact Nq. auto.
  - (* LAck *)
    destruct (c_recv (copies s c)) eqn:Er; try discriminate. simpl.
    destruct (c_st (copies s c)) eqn:Est; inversion E; subst s'; clear E; apply Hok, IH; auto.
    + now apply r1_settle.
    + apply r1_settle_noop; [exact R|congruence].
    + apply r1_settle_noop; [exact R|congruence].
  - (* LNack *)
    destruct (c_recv (copies s c)) eqn:Er; try discriminate. simpl.
    destruct (c_st (copies s c)) eqn:Est; inversion E; subst s'; clear E; apply Hok, IH; auto.
    + now apply r1_settle.
    + apply r1_settle_noop; [exact R|congruence].
    + apply r1_settle_noop; [exact R|congruence].
Qed.

Lemma r1_init cap0 fx : R1 (sinit cap0 fx) (ST1 [] [] false).
Proof. constructor; simpl; [tauto|discriminate]. Qed.

(** every violation reported on a model trace has code 2 and needs the unrepaired loop *)
Theorem one_in_flight_verdicts cap0 fx ls iv :
  In iv (mon_one_in_flight (trace (sinit cap0 fx) ls)) ->
  snd iv = V_TWO_IN_FLIGHT_CLOSING /\ fx = false.
Proof.
  intros Hin. pose proof (sound1 ls (sinit cap0 fx) (ST1 [] [] false) 0 (sx_reach cap0 fx [])
                                (r1_init cap0 fx)) as H.
  unfold ok1 in H. rewrite Forall_forall in H. exact (H iv Hin).
Qed.
Theorem one_in_flight_sound cap0 ls : mon_one_in_flight (trace (sinit cap0 true) ls) = [].
Proof.
  destruct (mon_one_in_flight (trace (sinit cap0 true) ls)) as [|iv r] eqn:E; [reflexivity|].
  destruct (one_in_flight_verdicts cap0 true ls iv) as [_ H]; [rewrite E; now left|discriminate].
Qed.
Theorem one_in_flight_only_closing cap0 fx ls iv :
  In iv (mon_one_in_flight (trace (sinit cap0 fx) ls)) -> snd iv = V_TWO_IN_FLIGHT_CLOSING.
Proof. intros H. now apply one_in_flight_verdicts in H. Qed.
End Trace.

(** code 2 does occur on the pinned loop: D13 (the 2nd receive is event 2 of the history) *)
Example one_in_flight_d13 :
  mon_one_in_flight (trace 7 (sinit 0 false) d13_schedule) = [(2, V_TWO_IN_FLIGHT_CLOSING)].
Proof. vm_compute. reflexivity. Qed.
