(** Invariants of the per-subscription send protocol (Layer A), for every schedule, any number
    of Sender threads, any consumer behaviour, any buffer size, both variants ([fixed]). *)
From WM Require Import Base.Prelude Message.Model GoChannel.Sub.

Definition sholds (p : spc) : bool :=
  match p with SHead _ | SSend _ _ | SWait _ _ | SExit _ => true | _ => false end.
Definition tholds (p : tpc) : bool :=
  match p with TLocked | TExit => true | _ => false end.
Definition td_signalled (p : tpc) : bool :=
  match p with TWant | TLocked | TExit | TDone => true | _ => false end.
Definition td_closed (p : tpc) : bool :=
  match p with TExit | TDone => true | _ => false end.

(** copy [c] is in flight: handed to the channel and not settled *)
Definition Out (s : sstate) (c : cid) : Prop :=
  c < next s /\ c_sent (copies s c) = true /\ c_st (copies s c) = Unsettled.

Lemma outstanding_b_Out s c : outstanding_b s c = true <-> Out s c.
Proof.
  unfold outstanding_b, Out. rewrite !andb_true_iff, Nat.ltb_lt.
  destruct (c_st (copies s c)); intuition congruence.
Qed.

(** the current copy of a sender thread, if any *)
Definition cur (p : spc) : option cid :=
  match p with SSend _ c | SWait _ c => Some c | _ => None end.

Record SInv (s : sstate) : Prop := {
  v_own_s : forall t, sending s = Some (OSender t) <-> sholds (thr s t) = true;
  v_own_t : sending s = Some OTeardown <-> tholds (td s) = true;
  v_nopanic : panicked s = false;
  v_closing : closing s = td_signalled (td s);
  v_closed : closedf s = td_closed (td s) /\ chan_closed s = td_closed (td s);
  v_send : forall t p c, thr s t = SSend p c ->
             c < next s /\ c_sent (copies s c) = false /\ c_thr (copies s c) = t
             /\ closedf s = false
             /\ (forall c', Out s c' -> fixed s = false /\ closing s = true);
  v_wait : forall t p c, thr s t = SWait p c ->
             c < next s /\ c_sent (copies s c) = true /\ c_thr (copies s c) = t;
  v_out : forall c, Out s c -> closing s = true \/ exists t p, thr s t = SWait p c;
  v_one : fixed s = true \/ closing s = false ->
          forall c1 c2, Out s c1 -> Out s c2 -> c1 = c2;
  v_recv : forall c, c_recv (copies s c) = true -> c_sent (copies s c) = true;
  v_buf : forall c, In c (buf s) -> c < next s /\ c_sent (copies s c) = true;
  v_fresh : forall c, next s <= c -> copies s c = empty_copy;
  (** a sender allocates a further copy only after the consumer Nacked all its earlier ones *)
  v_dup : forall c1 c2, c1 < c2 -> c2 < next s ->
          c_thr (copies s c1) = c_thr (copies s c2) -> c_st (copies s c1) = Nacked;
  v_cur : forall c, c < next s ->
          match thr s (c_thr (copies s c)) with
          | SNone => False
          | SWant _ | SHead _ => c_st (copies s c) = Nacked
          | SSend _ c0 | SWait _ c0 => c = c0 \/ c_st (copies s c) = Nacked
          | _ => True
          end
}.

Lemma sinv_init cap0 fx : SInv (sinit cap0 fx).
Proof.
  constructor; simpl.
  - intros t; split; discriminate.
  - split; discriminate.
  - reflexivity.
  - reflexivity.
  - split; reflexivity.
  - intros; discriminate.
  - intros; discriminate.
  - intros c [H _]. simpl in H. lia.
  - intros _ c1 c2 [H _]. simpl in H. lia.
  - intros; discriminate.
  - intros c [].
  - reflexivity.
  - intros; lia.
  - intros; lia.
Qed.

Ltac inv_some :=
  match goal with H : Some _ = Some _ |- _ => inversion H; subst; clear H end.

(** frame lemmas for [Out] *)
Lemma Out_ext s s' c : next s' = next s -> copies s' = copies s -> (Out s' c <-> Out s c).
Proof. unfold Out. intros -> ->. reflexivity. Qed.

(** mutual exclusion on the sending lock *)
Lemma mutex_ss s t1 t2 : SInv s -> sholds (thr s t1) = true -> sholds (thr s t2) = true -> t1 = t2.
Proof.
  intros I H1 H2. apply (v_own_s _ I) in H1. apply (v_own_s _ I) in H2. congruence.
Qed.
Lemma mutex_st s t : SInv s -> sholds (thr s t) = true -> tholds (td s) = true -> False.
Proof.
  intros I H1 H2. apply (v_own_s _ I) in H1. apply (v_own_t _ I) in H2. congruence.
Qed.

(** A step that only moves thread [t] from [thr s t] to [q] and keeps its lock status. *)
Lemma thr_only s t q : SInv s ->
  sholds q = sholds (thr s t) ->
  (forall p c, q = SSend p c -> thr s t = SSend p c) ->
  (forall p c, q = SWait p c -> thr s t = SWait p c) ->
  (forall p c, thr s t = SWait p c -> q <> SWait p c -> Out s c -> closing s = true) ->
  (forall c, c < next s -> c_thr (copies s c) = t ->
     match q with
     | SNone => False
     | SWant _ | SHead _ => c_st (copies s c) = Nacked
     | SSend _ c0 | SWait _ c0 => c = c0 \/ c_st (copies s c) = Nacked
     | _ => True
     end) ->
  SInv (set_thr s t q).
Proof.
  intros I Hh Hsend Hwait Hleave Hcur.
  constructor; simpl.
  - intros t'. updt t t'; [rewrite Hh|]; apply (v_own_s _ I).
  - apply (v_own_t _ I).
  - apply (v_nopanic _ I).
  - apply (v_closing _ I).
  - apply (v_closed _ I).
  - intros t' p c. updt t t'; intros E.
    + apply Hsend in E. apply (v_send _ I) in E. exact E.
    + apply (v_send _ I) in E. exact E.
  - intros t' p c. updt t t'; intros E.
    + apply Hwait in E. apply (v_wait _ I) in E. exact E.
    + apply (v_wait _ I) in E. exact E.
  - intros c Ho. assert (Ho' : Out s c) by exact Ho.
    destruct (v_out _ I c Ho') as [Hc|(t' & p & E)]; [now left|].
    destruct (Nat.eq_dec t' t) as [->|Hne].
    + destruct q as [|p0|p0|p0 c0|p0 c0|p0|p0] eqn:Eq;
        try (left; eapply Hleave; [exact E|discriminate|exact Ho']).
      destruct (Nat.eq_dec c0 c) as [->|Hc].
      * pose proof (Hwait _ _ eq_refl) as E2. rewrite E in E2. inversion E2; subst.
        right. exists t, p0. now rewrite upd_same.
      * left. eapply Hleave; [exact E| |exact Ho']. intros [= _ ?]. congruence.
    + right. exists t', p. now rewrite upd_other.
  - apply (v_one _ I).
  - apply (v_recv _ I).
  - apply (v_buf _ I).
  - apply (v_fresh _ I).
  - apply (v_dup _ I).
  - intros c Hc. destruct (Nat.eq_dec (c_thr (copies s c)) t) as [E|Hne].
    + rewrite E, upd_same. now apply Hcur.
    + rewrite upd_other by exact Hne. now apply (v_cur _ I).
Qed.

(** s.sending.Lock() by a sender *)
Lemma acquire_s s t p : SInv s -> thr s t = SWant p -> sending s = None ->
  SInv (set_thr (set_sending s (Some (OSender t))) t (SHead p)).
Proof.
  intros I E Hn.
  assert (Hno : forall t', sholds (thr s t') = false).
  { intros t'. destruct (sholds (thr s t')) eqn:Eh; [|reflexivity].
    apply (v_own_s _ I) in Eh. congruence. }
  assert (Hnt : tholds (td s) = false).
  { destruct (tholds (td s)) eqn:Eh; [|reflexivity]. apply (v_own_t _ I) in Eh. congruence. }
  constructor; simpl.
  - intros t'. updt t t'; simpl; [intuition congruence|].
    rewrite Hno. split; [intros [= ?]; congruence|discriminate].
  - rewrite Hnt. split; discriminate.
  - apply (v_nopanic _ I).
  - apply (v_closing _ I).
  - apply (v_closed _ I).
  - intros t' p' c. updt t t'; [discriminate|]. intros E'. now apply (v_send _ I) in E'.
  - intros t' p' c. updt t t'; [discriminate|]. intros E'. now apply (v_wait _ I) in E'.
  - intros c Ho. destruct (v_out _ I c Ho) as [Hc|(t' & p' & E')]; [now left|].
    right. exists t', p'. rewrite upd_other; [exact E'|]. intros ->. congruence.
  - apply (v_one _ I).
  - apply (v_recv _ I).
  - apply (v_buf _ I).
  - apply (v_fresh _ I).
  - apply (v_dup _ I).
  - intros c Hc. pose proof (v_cur _ I c Hc) as H.
    destruct (Nat.eq_dec (c_thr (copies s c)) t) as [Et|Hne].
    + rewrite Et, upd_same. rewrite Et, E in H. exact H.
    + rewrite upd_other by exact Hne. exact H.
Qed.

(** deferred Unlock by a sender *)
Lemma release_s s t p : SInv s -> thr s t = SExit p ->
  SInv (set_thr (set_sending s None) t (SDone p)).
Proof.
  intros I E.
  assert (Ht : sholds (thr s t) = true) by now rewrite E.
  constructor; simpl.
  - intros t'. updt t t'; simpl; [split; discriminate|].
    split; [discriminate|]. intros Hh. exfalso.
    assert (t' = t) by (eapply mutex_ss; eassumption). congruence.
  - split; [discriminate|]. intros Hh. exfalso. eapply mutex_st; eassumption.
  - apply (v_nopanic _ I).
  - apply (v_closing _ I).
  - apply (v_closed _ I).
  - intros t' p' c. updt t t'; [discriminate|]. intros E'. now apply (v_send _ I) in E'.
  - intros t' p' c. updt t t'; [discriminate|]. intros E'. now apply (v_wait _ I) in E'.
  - intros c Ho. destruct (v_out _ I c Ho) as [Hc|(t' & p' & E')]; [now left|].
    right. exists t', p'. rewrite upd_other; [exact E'|]. intros ->. congruence.
  - apply (v_one _ I).
  - apply (v_recv _ I).
  - apply (v_buf _ I).
  - apply (v_fresh _ I).
  - apply (v_dup _ I).
  - intros c Hc. pose proof (v_cur _ I c Hc) as H.
    destruct (Nat.eq_dec (c_thr (copies s c)) t) as [Et|Hne].
    + rewrite Et, upd_same. exact Logic.I.
    + rewrite upd_other by exact Hne. exact H.
Qed.

(** loop head, message copied: msgToSend := msg.Copy() *)
Definition alloc (s : sstate) (t : tid) (p : pubid) : sstate :=
  set_next (set_copy s (next s) (CP p t Unsettled false false)) (S (next s)).

Lemma Out_alloc s t p c' : SInv s -> (Out (alloc s t p) c' <-> Out s c').
Proof.
  intros I. unfold Out, alloc; simpl. split.
  - intros (H1 & H2 & H3). updt (next s) c'; simpl in *; [discriminate|].
    repeat split; try assumption. lia.
  - intros (H1 & H2 & H3). rewrite upd_other by lia. repeat split; try assumption. lia.
Qed.

Lemma alloc_s s t p : SInv s -> thr s t = SHead p -> closedf s = false ->
  (fixed s && closing s = false) ->
  SInv (set_thr (alloc s t p) t (SSend p (next s))).
Proof.
  intros I E Hcl Hfx.
  assert (Ht : sholds (thr s t) = true) by now rewrite E.
  assert (Hfresh : forall c, next s <= c -> copies s c = empty_copy) by apply (v_fresh _ I).
  constructor; simpl.
  - intros t'. updt t t'; simpl; [|apply (v_own_s _ I)].
    pose proof (v_own_s _ I t) as Ho. rewrite Ht in Ho. exact Ho.
  - apply (v_own_t _ I).
  - apply (v_nopanic _ I).
  - apply (v_closing _ I).
  - apply (v_closed _ I).
  - intros t' p' c. updt t t'.
    + intros [= <- <-]. rewrite upd_same. simpl.
      split; [lia|split; [reflexivity|split; [reflexivity|split; [assumption|]]]].
      intros c' Ho. apply (Out_alloc s t p c' I) in Ho.
      destruct (v_out _ I c' Ho) as [Hc|(t2 & p2 & E2)].
      * rewrite Hc in Hfx. rewrite andb_true_r in Hfx. now split.
      * exfalso. assert (t2 = t) by (eapply mutex_ss; [exact I|now rewrite E2|exact Ht]).
        subst. congruence.
    + intros E'. destruct (v_send _ I _ _ _ E') as (H1 & H2 & H3 & H4 & H5).
      rewrite upd_other by lia.
      split; [lia|split; [assumption|split; [assumption|split; [assumption|]]]].
      intros c' Ho. apply (Out_alloc s t p c' I) in Ho. exact (H5 c' Ho).
  - intros t' p' c. updt t t'; [discriminate|]. intros E'.
    destruct (v_wait _ I _ _ _ E') as (H1 & H2 & H3).
    rewrite upd_other by lia. repeat split; try assumption; lia.
  - intros c Ho. apply (Out_alloc s t p c I) in Ho.
    destruct (v_out _ I c Ho) as [Hc|(t' & p' & E')]; [now left|].
    right. exists t', p'. rewrite upd_other; [exact E'|]. intros ->. congruence.
  - intros Hp c1 c2 H1 H2. apply (Out_alloc s t p _ I) in H1. apply (Out_alloc s t p _ I) in H2.
    now apply (v_one _ I Hp).
  - intros c. updt (next s) c; simpl; [discriminate|]. apply (v_recv _ I).
  - intros c Hin. destruct (v_buf _ I c Hin) as [H1 H2].
    rewrite upd_other by lia. split; [lia|exact H2].
  - intros c Hc. rewrite upd_other by lia. apply Hfresh. lia.
  - intros c1 c2 H12 H2.
    assert (Hc1 : c1 < next s) by lia.
    rewrite (upd_other _ (next s) _ c1) by lia.
    destruct (Nat.eq_dec c2 (next s)) as [->|Hne].
    + rewrite upd_same. simpl. intros Et.
      pose proof (v_cur _ I c1 Hc1) as H. rewrite Et, E in H. exact H.
    + rewrite upd_other by exact Hne. apply (v_dup _ I); lia.
  - intros c Hc. destruct (Nat.eq_dec c (next s)) as [->|Hne].
    + rewrite upd_same. simpl. rewrite upd_same. now left.
    + rewrite (upd_other _ (next s) _ c) by exact Hne.
      assert (Hc' : c < next s) by lia.
      pose proof (v_cur _ I c Hc') as H.
      destruct (Nat.eq_dec (c_thr (copies s c)) t) as [Et|Hnt].
      * rewrite Et, upd_same. rewrite Et, E in H. now right.
      * rewrite upd_other by exact Hnt. exact H.
Qed.

(** the send case of the first select: the copy goes into the buffer or straight to a receiver *)
Lemma send_s s t p c x b' : SInv s -> thr s t = SSend p c ->
  c_thr x = c_thr (copies s c) -> c_st x = c_st (copies s c) -> c_sent x = true ->
  (forall c', In c' b' -> In c' (buf s) \/ c' = c) ->
  SInv (set_thr (set_buf (set_copy s c x) b') t (SWait p c)).
Proof.
  intros I E Hthr Hst Hsent Hb.
  assert (Ht : sholds (thr s t) = true) by now rewrite E.
  destruct (v_send _ I _ _ _ E) as (Hlt & Hus & Hown & Hcl & Hother).
  assert (HOut : forall c', Out (set_thr (set_buf (set_copy s c x) b') t (SWait p c)) c' ->
                            c' = c \/ (c' <> c /\ Out s c')).
  { intros c' (H1 & H2 & H3). simpl in *. destruct (Nat.eq_dec c' c) as [->|Hne]; [now left|].
    right. split; [exact Hne|]. rewrite upd_other in H2, H3 by exact Hne. now repeat split. }
  constructor; simpl.
  - intros t'. updt t t'; simpl; [|apply (v_own_s _ I)].
    pose proof (v_own_s _ I t) as Ho. rewrite Ht in Ho. exact Ho.
  - apply (v_own_t _ I).
  - apply (v_nopanic _ I).
  - apply (v_closing _ I).
  - apply (v_closed _ I).
  - intros t' p' c0. updt t t'; [discriminate|]. intros E'.
    destruct (v_send _ I _ _ _ E') as (H1 & H2 & H3 & H4 & H5).
    exfalso. assert (t' = t) by (eapply mutex_ss; [exact I|now rewrite E'|exact Ht]). congruence.
  - intros t' p' c0. updt t t'.
    + intros [= <- <-]. rewrite upd_same. split; [exact Hlt|split; [exact Hsent|congruence]].
    + intros E'. exfalso.
      assert (t' = t) by (eapply mutex_ss; [exact I|now rewrite E'|exact Ht]). congruence.
  - intros c' Ho. destruct (HOut c' Ho) as [Heq|[Hne Ho']]; [subst c'|].
    + right. exists t, p. now rewrite upd_same.
    + destruct (Hother c' Ho') as [_ Hc]. now left.
  - intros Hp c1 c2 H1 H2.
    destruct (HOut c1 H1) as [Heq1|[Hne1 Ho1]]; destruct (HOut c2 H2) as [Heq2|[Hne2 Ho2]];
      try congruence; exfalso.
    + destruct (Hother c2 Ho2) as [Hf Hc]. destruct Hp; congruence.
    + destruct (Hother c1 Ho1) as [Hf Hc]. destruct Hp; congruence.
    + destruct (Hother c1 Ho1) as [Hf Hc]. destruct Hp; congruence.
  - intros c'. updt c c'; [intros _; exact Hsent|apply (v_recv _ I)].
  - intros c' Hin. destruct (Hb c' Hin) as [Hin' | ->].
    + destruct (v_buf _ I c' Hin') as [H1 H2]. split; [exact H1|].
      updt c c'; [exact Hsent|exact H2].
    + rewrite upd_same. split; [exact Hlt|exact Hsent].
  - intros c' Hc'. rewrite upd_other by lia. now apply (v_fresh _ I).
  - intros c1 c2 H12 H2.
    assert (Hth : forall c0, c_thr (upd (copies s) c x c0) = c_thr (copies s c0)).
    { intros c0. updt c c0; [exact Hthr|reflexivity]. }
    assert (Hs : forall c0, c_st (upd (copies s) c x c0) = c_st (copies s c0)).
    { intros c0. updt c c0; [exact Hst|reflexivity]. }
    rewrite !Hth, Hs. now apply (v_dup _ I).
  - intros c0 Hc0.
    assert (Hth : c_thr (upd (copies s) c x c0) = c_thr (copies s c0)).
    { updt c c0; [exact Hthr|reflexivity]. }
    assert (Hs : c_st (upd (copies s) c x c0) = c_st (copies s c0)).
    { updt c c0; [exact Hst|reflexivity]. }
    rewrite Hth, Hs. pose proof (v_cur _ I c0 Hc0) as H.
    destruct (Nat.eq_dec (c_thr (copies s c0)) t) as [Et|Hnt].
    + rewrite Et, upd_same. rewrite Et, E in H. exact H.
    + rewrite upd_other by exact Hnt. exact H.
Qed.

(** teardown steps that touch nothing but its own program counter *)
Lemma td_only s q : SInv s ->
  tholds q = tholds (td s) -> td_signalled q = td_signalled (td s) -> td_closed q = td_closed (td s) ->
  SInv (set_td s q).
Proof.
  intros I H1 H2 H3. constructor; simpl; try rewrite H1; try rewrite H2; try rewrite H3.
  - apply (v_own_s _ I).
  - apply (v_own_t _ I).
  - apply (v_nopanic _ I).
  - apply (v_closing _ I).
  - apply (v_closed _ I).
  - apply (v_send _ I).
  - apply (v_wait _ I).
  - apply (v_out _ I).
  - apply (v_one _ I).
  - apply (v_recv _ I).
  - apply (v_buf _ I).
  - apply (v_fresh _ I).
  - apply (v_dup _ I).
  - apply (v_cur _ I).
Qed.

(** close(s.closing) *)
Lemma td_signal s : SInv s -> td s = TSignal -> SInv (set_td (set_closing s) TWant).
Proof.
  intros I E.
  assert (Hc : closing s = false) by (rewrite (v_closing _ I), E; reflexivity).
  constructor; simpl.
  - apply (v_own_s _ I).
  - pose proof (v_own_t _ I) as H. rewrite E in H. exact H.
  - rewrite Hc, (v_nopanic _ I). reflexivity.
  - reflexivity.
  - pose proof (v_closed _ I) as H. rewrite E in H. exact H.
  - intros t p c E'. destruct (v_send _ I _ _ _ E') as (H1 & H2 & H3 & H4 & H5).
    split; [exact H1|split; [exact H2|split; [exact H3|split; [exact H4|]]]].
    intros c' Ho. destruct (H5 c' Ho) as [_ Hx]. congruence.
  - apply (v_wait _ I).
  - intros c _. now left.
  - intros [Hf|Hx]; [|discriminate]. apply (v_one _ I). now left.
  - apply (v_recv _ I).
  - apply (v_buf _ I).
  - apply (v_fresh _ I).
  - apply (v_dup _ I).
  - apply (v_cur _ I).
Qed.

(** s.sending.Lock() by the teardown *)
Lemma td_acquire s : SInv s -> td s = TWant -> sending s = None ->
  SInv (set_td (set_sending s (Some OTeardown)) TLocked).
Proof.
  intros I E Hn.
  assert (Hno : forall t', sholds (thr s t') = false).
  { intros t'. destruct (sholds (thr s t')) eqn:Eh; [|reflexivity].
    apply (v_own_s _ I) in Eh. congruence. }
  constructor; simpl.
  - intros t'. rewrite Hno. split; discriminate.
  - split; reflexivity.
  - apply (v_nopanic _ I).
  - rewrite (v_closing _ I), E. reflexivity.
  - pose proof (v_closed _ I) as H. rewrite E in H. exact H.
  - apply (v_send _ I).
  - apply (v_wait _ I).
  - apply (v_out _ I).
  - apply (v_one _ I).
  - apply (v_recv _ I).
  - apply (v_buf _ I).
  - apply (v_fresh _ I).
  - apply (v_dup _ I).
  - apply (v_cur _ I).
Qed.

(** s.closed = true; close(s.outputChannel) *)
Lemma td_close s : SInv s -> td s = TLocked -> SInv (set_td (set_closed s) TExit).
Proof.
  intros I E.
  assert (Hth : tholds (td s) = true) by now rewrite E.
  assert (Hcc : chan_closed s = false) by (destruct (v_closed _ I) as [_ H]; rewrite H, E; reflexivity).
  constructor; simpl.
  - apply (v_own_s _ I).
  - pose proof (v_own_t _ I) as H. rewrite E in H. exact H.
  - rewrite Hcc, (v_nopanic _ I). reflexivity.
  - rewrite (v_closing _ I), E. reflexivity.
  - split; reflexivity.
  - intros t p c E'. exfalso. eapply mutex_st; [exact I|now rewrite E'|exact Hth].
  - apply (v_wait _ I).
  - apply (v_out _ I).
  - apply (v_one _ I).
  - apply (v_recv _ I).
  - apply (v_buf _ I).
  - apply (v_fresh _ I).
  - apply (v_dup _ I).
  - apply (v_cur _ I).
Qed.

(** deferred Unlock by the teardown *)
Lemma td_release s : SInv s -> td s = TExit -> SInv (set_td (set_sending s None) TDone).
Proof.
  intros I E.
  assert (Hth : tholds (td s) = true) by now rewrite E.
  constructor; simpl.
  - intros t'. split; [discriminate|]. intros Hh. exfalso. eapply mutex_st; eassumption.
  - split; discriminate.
  - apply (v_nopanic _ I).
  - rewrite (v_closing _ I), E. reflexivity.
  - pose proof (v_closed _ I) as H. rewrite E in H. exact H.
  - apply (v_send _ I).
  - apply (v_wait _ I).
  - apply (v_out _ I).
  - apply (v_one _ I).
  - apply (v_recv _ I).
  - apply (v_buf _ I).
  - apply (v_fresh _ I).
  - apply (v_dup _ I).
  - apply (v_cur _ I).
Qed.

(** the consumer changes one copy: receive flag and/or settlement (Unsettled -> w only) *)
Lemma consumer_s s c x b' : SInv s -> c < next s ->
  c_thr x = c_thr (copies s c) -> c_sent x = c_sent (copies s c) ->
  (c_st x = c_st (copies s c) \/ c_st (copies s c) = Unsettled) ->
  (c_recv x = true -> c_sent (copies s c) = true) ->
  (forall c', In c' b' -> In c' (buf s)) ->
  SInv (set_buf (set_copy s c x) b').
Proof.
  intros I Hlt Hthr Hsent Hst Hrecv Hb.
  assert (HOut : forall c', Out (set_buf (set_copy s c x) b') c' -> Out s c').
  { intros c' (H1 & H2 & H3). simpl in *. updt c c'; [|now repeat split].
    repeat split; [exact H1|congruence|]. destruct Hst; congruence. }
  assert (Hth : forall c0, c_thr (upd (copies s) c x c0) = c_thr (copies s c0)).
  { intros c0. updt c c0; [exact Hthr|reflexivity]. }
  assert (Hse : forall c0, c_sent (upd (copies s) c x c0) = c_sent (copies s c0)).
  { intros c0. updt c c0; [exact Hsent|reflexivity]. }
  assert (Hn : forall c0, c_st (copies s c0) = Nacked -> c_st (upd (copies s) c x c0) = Nacked).
  { intros c0 H. updt c c0; [|exact H]. destruct Hst; congruence. }
  constructor; simpl.
  - apply (v_own_s _ I).
  - apply (v_own_t _ I).
  - apply (v_nopanic _ I).
  - apply (v_closing _ I).
  - apply (v_closed _ I).
  - intros t p c0 E'. destruct (v_send _ I _ _ _ E') as (H1 & H2 & H3 & H4 & H5).
    rewrite Hth, Hse.
    split; [exact H1|split; [exact H2|split; [exact H3|split; [exact H4|]]]].
    intros c' Ho. apply HOut in Ho. exact (H5 c' Ho).
  - intros t p c0 E'. destruct (v_wait _ I _ _ _ E') as (H1 & H2 & H3).
    rewrite Hth, Hse. now repeat split.
  - intros c' Ho. apply HOut in Ho. now apply (v_out _ I).
  - intros Hp c1 c2 H1 H2. apply HOut in H1. apply HOut in H2. now apply (v_one _ I Hp).
  - intros c0. rewrite Hse. updt c c0; [exact Hrecv|apply (v_recv _ I)].
  - intros c0 Hin. apply Hb in Hin. rewrite Hse. now apply (v_buf _ I).
  - intros c0 Hc0. rewrite upd_other by lia. now apply (v_fresh _ I).
  - intros c1 c2 H12 H2. rewrite !Hth. intros Et. apply Hn. now apply (v_dup _ I c1 c2).
  - intros c0 Hc0. rewrite Hth. pose proof (v_cur _ I c0 Hc0) as H.
    destruct (thr s (c_thr (copies s c0))); try exact H.
    + now apply Hn.
    + now apply Hn.
    + destruct H as [H|H]; [now left|right; now apply Hn].
    + destruct H as [H|H]; [now left|right; now apply Hn].
Qed.

Lemma recv_lt s c : SInv s -> c_recv (copies s c) = true -> c < next s.
Proof.
  intros I H. destruct (Nat.lt_ge_cases c (next s)) as [Hl|Hg]; [exact Hl|].
  rewrite (v_fresh _ I c Hg) in H. discriminate.
Qed.

Theorem sstep_inv s l s' : SInv s -> sstep s l = Some s' -> SInv s'.
Proof.
  intros I Hs. destruct l as [t p|  | | |t|t|t|t|t|t| |c|c]; simpl in Hs.
  - (* LSpawn *)
    destruct (thr s t) eqn:E; try discriminate. inv_some.
    apply thr_only; try exact I; rewrite ?E; try reflexivity; try discriminate.
    intros c Hc Et. pose proof (v_cur _ I c Hc) as H. rewrite Et, E in H. destruct H.
  - (* LTdSpawn *)
    destruct (td s) eqn:E; try discriminate. inv_some.
    apply td_only; try exact I; rewrite E; reflexivity.
  - (* LTdWake *)
    destruct (td s) eqn:E; try discriminate. inv_some.
    apply td_only; try exact I; rewrite E; reflexivity.
  - (* LTdStep *)
    destruct (td s) eqn:E; try discriminate.
    + inv_some. now apply td_signal.
    + destruct (sending s) eqn:Es; try discriminate. inv_some. now apply td_acquire.
    + inv_some. now apply td_close.
    + inv_some. now apply td_release.
  - (* LStep *)
    destruct (thr s t) as [|p|p|p c|p c|p|p] eqn:E; try discriminate.
    + destruct (sending s) eqn:Es; try discriminate. inv_some. now apply acquire_s.
    + destruct (closedf s) eqn:Ec.
      * inv_some. apply thr_only; try exact I; rewrite ?E; try reflexivity; try discriminate.
        all: try (intros; exact Logic.I).
      * destruct (fixed s && closing s) eqn:Ef.
        -- inv_some. apply thr_only; try exact I; rewrite ?E; try reflexivity; try discriminate.
           all: try (intros; exact Logic.I).
        -- inv_some. now apply alloc_s.
    + inv_some. now apply release_s.
  - (* LSendBuf *)
    destruct (thr s t) as [|p|p|p c|p c|p|p] eqn:E; try discriminate.
    destruct (v_send _ I _ _ _ E) as (_ & _ & _ & Hcl & _).
    assert (Hcc : chan_closed s = false).
    { destruct (v_closed _ I) as [H1 H2]. congruence. }
    rewrite Hcc in Hs. destruct (Nat.ltb (length (buf s)) (cap s)); try discriminate. inv_some.
    apply send_s; try exact I; try exact E; try reflexivity.
    intros c' Hin. apply in_app_or in Hin. destruct Hin as [H|[H|[]]]; [now left|now right].
  - (* LHandoff *)
    destruct (thr s t) as [|p|p|p c|p c|p|p] eqn:E; try discriminate.
    destruct (v_send _ I _ _ _ E) as (_ & _ & _ & Hcl & _).
    assert (Hcc : chan_closed s = false).
    { destruct (v_closed _ I) as [H1 H2]. congruence. }
    rewrite Hcc in Hs. destruct (buf s) eqn:Eb; try discriminate. inv_some.
    replace (set_copy s c (mark_recv (mark_sent (copies s c))))
      with (set_buf (set_copy s c (mark_recv (mark_sent (copies s c)))) []).
    2:{ unfold set_buf, set_copy; simpl. now rewrite Eb. }
    apply send_s; try exact I; try exact E; try reflexivity. intros c' [].
  - (* LSeeClosing *)
    destruct (closing s) eqn:Ec; try discriminate.
    destruct (thr s t) as [|p|p|p c|p c|p|p] eqn:E; try discriminate; inv_some.
    + apply thr_only; try exact I; rewrite ?E; try reflexivity; try discriminate.
      all: try (intros; exact Logic.I).
    + apply thr_only; try exact I; rewrite ?E; try reflexivity; try discriminate.
      all: try (intros; exact Ec).
      all: try (intros; exact Logic.I).
  - (* LSeeAcked *)
    destruct (thr s t) as [|p|p|p c|p c|p|p] eqn:E; try discriminate.
    destruct (c_st (copies s c)) eqn:Est; try discriminate. inv_some.
    apply thr_only; try exact I; rewrite ?E; try reflexivity; try discriminate.
    all: try (intros; exact Logic.I).
    intros p' c' [= -> ->] _ (_ & _ & Hu). congruence.
  - (* LSeeNacked *)
    destruct (thr s t) as [|p|p|p c|p c|p|p] eqn:E; try discriminate.
    destruct (c_st (copies s c)) eqn:Est; try discriminate. inv_some.
    apply thr_only; try exact I; rewrite ?E; try reflexivity; try discriminate.
    + intros p' c' [= -> ->] _ (_ & _ & Hu). congruence.
    + intros c' Hc' Et. pose proof (v_cur _ I c' Hc') as H. rewrite Et, E in H.
      destruct H as [->|H]; assumption.
  - (* LRecv *)
    destruct (buf s) as [|c b] eqn:Eb; try discriminate. inv_some.
    assert (Hin : In c (buf s)) by (rewrite Eb; now left).
    destruct (v_buf _ I c Hin) as [Hlt Hsent].
    apply consumer_s; try exact I; try exact Hlt; try reflexivity.
    + now left.
    + intros _. exact Hsent.
    + intros c' Hc'. rewrite Eb. now right.
  - (* LAck *)
    destruct (c_recv (copies s c)) eqn:Er; try discriminate.
    destruct (c_st (copies s c)) eqn:Est; inv_some; try exact I.
    replace (set_copy s c (mark_st (copies s c) Acked))
      with (set_buf (set_copy s c (mark_st (copies s c) Acked)) (buf s)) by reflexivity.
    apply consumer_s; try exact I; try reflexivity.
    + now apply recv_lt.
    + now right.
    + intros _. now apply (v_recv _ I).
    + auto.
  - (* LNack *)
    destruct (c_recv (copies s c)) eqn:Er; try discriminate.
    destruct (c_st (copies s c)) eqn:Est; inv_some; try exact I.
    replace (set_copy s c (mark_st (copies s c) Nacked))
      with (set_buf (set_copy s c (mark_st (copies s c) Nacked)) (buf s)) by reflexivity.
    apply consumer_s; try exact I; try reflexivity.
    + now apply recv_lt.
    + now right.
    + intros _. now apply (v_recv _ I).
    + auto.
Qed.

Theorem srun_inv ls : forall s, SInv s -> SInv (srun s ls).
Proof.
  induction ls as [|l ls IH]; intros s I; simpl; [exact I|].
  destruct (sstep s l) as [s'|] eqn:E; [|now apply IH].
  apply IH. eapply sstep_inv; eassumption.
Qed.

(** * Statements used by Props/C05.v, C04.v, C07.v *)

Lemma filter_all_equal {A} (f : A -> bool) (l : list A) :
  NoDup l -> (forall x y, In x l -> In y l -> f x = true -> f y = true -> x = y) ->
  length (filter f l) <= 1.
Proof.
  induction l as [|a l IH]; intros Hnd Heq; simpl; [lia|].
  inversion Hnd as [|? ? Hnotin Hnd']; subst.
  destruct (f a) eqn:Efa.
  - simpl. assert (Hl : filter f l = []).
    { destruct (filter f l) as [|b l'] eqn:Ef; [reflexivity|]. exfalso.
      assert (Hb : In b (filter f l)) by (rewrite Ef; now left).
      apply filter_In in Hb as [Hb1 Hb2].
      assert (a = b) by (apply Heq; simpl; auto). subst. contradiction. }
    rewrite Hl. simpl. lia.
  - apply IH; [exact Hnd'|]. intros x y Hx Hy. apply Heq; now right.
Qed.

Lemma sstep_fixed s l s' : sstep s l = Some s' -> fixed s' = fixed s.
Proof.
  intros E. destruct l; simpl in E;
    repeat match type of E with
           | context [match ?x with _ => _ end] => destruct x eqn:?; try discriminate
           | context [if ?x then _ else _] => destruct x eqn:?; try discriminate
           end; inversion E; reflexivity.
Qed.

Lemma srun_fixed ls : forall s, fixed (srun s ls) = fixed s.
Proof.
  induction ls as [|l ls IH]; intros s; simpl; [reflexivity|].
  destruct (sstep s l) as [s1|] eqn:E; [|apply IH]. rewrite IH. eapply sstep_fixed; eassumption.
Qed.

(** C05: never more than one copy in flight (handed to the channel and unsettled) - in the
    repaired variant always, in the code as it is as long as the subscription is not closing *)
Theorem one_in_flight cap0 fx ls :
  let s := srun (sinit cap0 fx) ls in
  (fx = true \/ closing s = false) -> length (outstanding s) <= 1.
Proof.
  intros s Hp. assert (I : SInv s) by apply srun_inv, sinv_init.
  assert (Hfx : fixed s = fx) by (unfold s; rewrite srun_fixed; reflexivity).
  unfold outstanding. apply filter_all_equal; [apply seq_NoDup|].
  intros x y _ _ Hx Hy. apply outstanding_b_Out in Hx. apply outstanding_b_Out in Hy.
  apply (v_one _ I); [rewrite Hfx; exact Hp| |]; assumption.
Qed.

(** D13: in the code as it is, after a cancel a queued Sender delivers a second message while
    the first is still unsettled (buffer 0: both were RECEIVED by the consumer) *)
Definition d13_schedule : list label :=
  [LTdSpawn; LSpawn 0 10; LSpawn 1 11;
   LStep 0; LStep 0; LHandoff 0;            (* message 10 received, unsettled *)
   LTdWake; LTdStep;                        (* cancel: close(s.closing) *)
   LSeeClosing 0; LStep 0;                  (* first Sender gives up, unlocks *)
   LStep 1; LStep 1; LHandoff 1].           (* second Sender still takes the send case *)

Theorem one_in_flight_refuted :
  let s := srun (sinit 0 false) d13_schedule in
  outstanding s = [0; 1]
  /\ c_recv (copies s 0) = true /\ c_recv (copies s 1) = true /\ panicked s = false.
Proof. vm_compute. repeat split; reflexivity. Qed.

(** the same schedule on the repaired variant: the second Sender gives up *)
Theorem one_in_flight_fixed_witness :
  let s := srun (sinit 0 true) d13_schedule in outstanding s = [0] /\ thr s 1 = SExit 11.
Proof. vm_compute. split; reflexivity. Qed.

(** C07 (per subscription): no send on a closed channel, no double close - ever *)
Theorem sub_no_panic cap0 fx ls : panicked (srun (sinit cap0 fx) ls) = false.
Proof. apply v_nopanic, srun_inv, sinv_init. Qed.

(** C04: a Sender makes a further copy of its message only after the consumer Nacked every
    earlier copy (so: no duplicate without a Nack; an Acked message is never sent again) *)
Theorem no_duplicate_without_nack cap0 fx ls :
  let s := srun (sinit cap0 fx) ls in
  forall c1 c2, c1 < c2 -> c2 < next s ->
  c_thr (copies s c1) = c_thr (copies s c2) ->
  c_st (copies s c1) = Nacked.
Proof.
  intros s c1 c2 H12 H2 Et. assert (I : SInv s) by apply srun_inv, sinv_init.
  now apply (v_dup _ I c1 c2).
Qed.

(** C04: after a Nack the Sender is not blocked: its next step goes back to the loop head,
    where (unless the subscription is closing/closed) it offers a fresh copy *)
Theorem redelivery_after_nack s t p c : SInv s ->
  thr s t = SWait p c -> c_st (copies s c) = Nacked ->
  exists s1, sstep s (LSeeNacked t) = Some s1 /\ thr s1 t = SHead p
  /\ (closedf s1 = false -> fixed s1 && closing s1 = false ->
      exists s2, sstep s1 (LStep t) = Some s2 /\ thr s2 t = SSend p (next s1)
                 /\ c_pub (copies s2 (next s1)) = p /\ c_st (copies s2 (next s1)) = Unsettled).
Proof.
  intros I E Hn. simpl. rewrite E, Hn. eexists; split; [reflexivity|].
  split; [simpl; apply upd_same|].
  intros H1 H2. simpl in H1, H2. simpl. rewrite upd_same. rewrite H1, H2.
  eexists; split; [reflexivity|]. simpl. rewrite !upd_same. repeat split; reflexivity.
Qed.

(** C04: settling one copy changes no other copy (separate copies per delivery) *)
Theorem settle_is_local s c s' : (sstep s (LAck c) = Some s' \/ sstep s (LNack c) = Some s') ->
  forall c', c' <> c -> copies s' c' = copies s c'.
Proof.
  intros [E|E] c' Hne; simpl in E;
    destruct (c_recv (copies s c)); try discriminate;
    destruct (c_st (copies s c)); inversion E; subst; simpl;
    rewrite ?upd_other by exact Hne; reflexivity.
Qed.

(** C07 (per subscription, partial: absence of deadlock, not termination): once the teardown
    has been woken it is never stuck - either it can step itself or the Sender that holds
    the sending lock can (in particular a Sender waiting for a settlement or for the consumer
    sees s.closing) *)
Theorem teardown_never_stuck cap0 fx ls :
  let s := srun (sinit cap0 fx) ls in
  match td s with
  | TSignal | TLocked | TExit => sstep s LTdStep <> None
  | TWant =>
      sstep s LTdStep <> None
      \/ exists t, sending s = Some (OSender t)
                   /\ (sstep s (LStep t) <> None \/ sstep s (LSeeClosing t) <> None)
  | _ => True
  end.
Proof.
  intros s. assert (I : SInv s) by apply srun_inv, sinv_init.
  destruct (td s) eqn:E; try exact Logic.I; try (simpl; rewrite E; discriminate).
  destruct (sending s) as [[t|]|] eqn:Es.
  - right. exists t. split; [reflexivity|].
    assert (Hh : sholds (thr s t) = true) by now apply (v_own_s _ I).
    assert (Hc : closing s = true) by (rewrite (v_closing _ I), E; reflexivity).
    simpl. rewrite Hc. destruct (thr s t) eqn:Et; try discriminate.
    + left. destruct (closedf s); [discriminate|]. destruct (fixed s && true); discriminate.
    + right. discriminate.
    + right. discriminate.
    + left. discriminate.
  - exfalso. apply (v_own_t _ I) in Es. rewrite E in Es. discriminate.
  - left. simpl. rewrite E, Es. discriminate.
Qed.
