(** Layer A of the GoChannel model: the per-subscription send protocol
    (pubsub/gochannel/pubsub.go: sendMessageToSubscriber l.343-384, subscriber.Close l.325-341,
    the consumer side of the output channel).

    ONE subscription with output buffer capacity [cap].  Threads (total map, any number):
      Sender p   sending.Lock -> loop head (fresh copy; s.closed?) -> select{send | closing}
                 -> select{acked | nacked -> loop | closing} -> Unlock
      Teardown   woken (ctx.Done / g.closing) -> close(s.closing) -> sending.Lock
                 -> s.closed = true; close(outputChannel) -> Unlock
    Environment labels: spawn a Sender for publication p (Publish snapshot or persistent
    replay - Layer B decides which), wake the teardown, the consumer receiving and
    settling copies in any order it likes.

    [fixed] selects the D13 repair (a Sender that gets the lock gives up when s.closing is
    already closed); [fixed = false] is the code as it is at the pinned commit.
    No proofs here. *)
From WM Require Import Base.Prelude Message.Model.

Definition cid := nat.       (* delivered copy *)
Definition pubid := nat.     (* published message *)

Inductive spc :=
| SNone                              (* not a thread (yet) *)
| SWant (p : pubid)                  (* before s.sending.Lock() *)
| SHead (p : pubid)                  (* holds the lock, at the head of the send loop *)
| SSend (p : pubid) (c : cid)        (* holds the lock, at select { out <- c | <-closing } *)
| SWait (p : pubid) (c : cid)        (* holds the lock, at select { acked | nacked | closing } *)
| SExit (p : pubid)                  (* holds the lock, about to return (deferred Unlock) *)
| SDone (p : pubid).

(** the ONE teardown goroutine of the subscription (Subscribe l.197-216 + subscriber.Close) *)
Inductive tpc :=
| TNone                              (* not spawned yet *)
| TIdle                              (* waiting for ctx.Done / g.closing *)
| TSignal                            (* woken, about to close(s.closing) *)
| TWant                              (* before s.sending.Lock() *)
| TLocked                            (* holds the lock, about to set closed and close the channel *)
| TExit                              (* holds the lock, about to Unlock *)
| TDone.

(** owner of the sending mutex *)
Inductive owner := OSender (t : tid) | OTeardown.

Record copy := CP { c_pub : pubid; c_thr : tid; c_st : settle; c_sent : bool; c_recv : bool }.

Record sstate := SS {
  cap : nat;
  fixed : bool;
  closing : bool;                (* s.closing is closed *)
  closedf : bool;                (* s.closed *)
  chan_closed : bool;            (* outputChannel is closed *)
  sending : option owner;        (* owner of s.sending *)
  buf : list cid;                (* buffered, not yet received *)
  copies : cid -> copy;
  next : cid;                    (* copies allocated so far *)
  thr : tid -> spc;
  td : tpc;
  panicked : bool
}.

Inductive label :=
| LSpawn (t : tid) (p : pubid)       (* environment: go sendMessageToSubscriber(p) as thread t *)
| LTdSpawn                           (* Subscribe: go teardown *)
| LTdWake                            (* ctx.Done or g.closing observed by the teardown *)
| LTdStep                            (* the deterministic next step of the teardown *)
| LStep (t : tid)                    (* the deterministic next step of sender t *)
| LSendBuf (t : tid)                 (* select: send case, into the buffer *)
| LHandoff (t : tid)                 (* select: send case, directly to a waiting receiver *)
| LSeeClosing (t : tid)              (* select: <-s.closing case *)
| LSeeAcked (t : tid)                (* select: <-Acked() case *)
| LSeeNacked (t : tid)               (* select: <-Nacked() case *)
| LRecv                              (* consumer receives the head of the buffer *)
| LAck (c : cid)                     (* consumer calls Ack on a received copy *)
| LNack (c : cid).

Definition empty_copy := CP 0 0 Unsettled false false.

Definition sinit (cap0 : nat) (fx : bool) : sstate :=
  SS cap0 fx false false false None [] (fun _ => empty_copy) 0 (fun _ => SNone) TNone false.

Definition set_thr (s : sstate) (t : tid) (p : spc) : sstate :=
  SS (cap s) (fixed s) (closing s) (closedf s) (chan_closed s) (sending s) (buf s) (copies s)
     (next s) (upd (thr s) t p) (td s) (panicked s).
Definition set_td (s : sstate) (x : tpc) : sstate :=
  SS (cap s) (fixed s) (closing s) (closedf s) (chan_closed s) (sending s) (buf s) (copies s)
     (next s) (thr s) x (panicked s).
Definition set_sending (s : sstate) (o : option owner) : sstate :=
  SS (cap s) (fixed s) (closing s) (closedf s) (chan_closed s) o (buf s) (copies s)
     (next s) (thr s) (td s) (panicked s).
Definition set_copy (s : sstate) (c : cid) (x : copy) : sstate :=
  SS (cap s) (fixed s) (closing s) (closedf s) (chan_closed s) (sending s) (buf s)
     (upd (copies s) c x) (next s) (thr s) (td s) (panicked s).
Definition set_buf (s : sstate) (b : list cid) : sstate :=
  SS (cap s) (fixed s) (closing s) (closedf s) (chan_closed s) (sending s) b (copies s)
     (next s) (thr s) (td s) (panicked s).
Definition set_next (s : sstate) (n : cid) : sstate :=
  SS (cap s) (fixed s) (closing s) (closedf s) (chan_closed s) (sending s) (buf s) (copies s)
     n (thr s) (td s) (panicked s).
Definition set_closing (s : sstate) : sstate :=
  SS (cap s) (fixed s) true (closedf s) (chan_closed s) (sending s) (buf s) (copies s)
     (next s) (thr s) (td s) (panicked s || closing s).           (* close of a closed channel panics *)
Definition set_closed (s : sstate) : sstate :=
  SS (cap s) (fixed s) (closing s) true true (sending s) (buf s) (copies s)
     (next s) (thr s) (td s) (panicked s || chan_closed s).
Definition set_panicked (s : sstate) : sstate :=
  SS (cap s) (fixed s) (closing s) (closedf s) (chan_closed s) (sending s) (buf s) (copies s)
     (next s) (thr s) (td s) true.

Definition mark_sent (x : copy) := CP (c_pub x) (c_thr x) (c_st x) true (c_recv x).
Definition mark_recv (x : copy) := CP (c_pub x) (c_thr x) (c_st x) (c_sent x) true.
Definition mark_st (x : copy) (w : settle) := CP (c_pub x) (c_thr x) w (c_sent x) (c_recv x).

Definition sstep (s : sstate) (l : label) : option sstate :=
  match l with
  | LSpawn t p =>
      match thr s t with SNone => Some (set_thr s t (SWant p)) | _ => None end
  | LTdSpawn => match td s with TNone => Some (set_td s TIdle) | _ => None end
  | LTdWake => match td s with TIdle => Some (set_td s TSignal) | _ => None end
  | LTdStep =>
      match td s with
      | TSignal => Some (set_td (set_closing s) TWant)               (* close(s.closing) *)
      | TWant =>                                                     (* s.sending.Lock() *)
          match sending s with
          | None => Some (set_td (set_sending s (Some OTeardown)) TLocked)
          | Some _ => None
          end
      | TLocked => Some (set_td (set_closed s) TExit)                (* s.closed = true; close(out) *)
      | TExit => Some (set_td (set_sending s None) TDone)            (* deferred Unlock *)
      | _ => None
      end
  | LStep t =>
      match thr s t with
      | SWant p =>                                    (* s.sending.Lock() *)
          match sending s with
          | None => Some (set_thr (set_sending s (Some (OSender t))) t (SHead p))
          | Some _ => None
          end
      | SHead p =>                                    (* msgToSend := msg.Copy(); if s.closed return *)
          if closedf s then Some (set_thr s t (SExit p))
          else if fixed s && closing s then Some (set_thr s t (SExit p))     (* D13 repair *)
          else let c := next s in
               Some (set_thr (set_next (set_copy s c (CP p t Unsettled false false)) (S c)) t (SSend p c))
      | SExit p =>                                    (* deferred Unlock *)
          Some (set_thr (set_sending s None) t (SDone p))
      | _ => None
      end
  | LSendBuf t =>
      match thr s t with
      | SSend p c =>
          if chan_closed s then Some (set_thr (set_panicked s) t (SExit p))   (* send on closed channel *)
          else if Nat.ltb (length (buf s)) (cap s)
               then Some (set_thr (set_buf (set_copy s c (mark_sent (copies s c))) (buf s ++ [c])) t (SWait p c))
               else None
      | _ => None
      end
  | LHandoff t =>
      match thr s t with
      | SSend p c =>
          if chan_closed s then Some (set_thr (set_panicked s) t (SExit p))
          else match buf s with
               | [] => Some (set_thr (set_copy s c (mark_recv (mark_sent (copies s c)))) t (SWait p c))
               | _ => None
               end
      | _ => None
      end
  | LSeeClosing t =>
      if closing s then
        match thr s t with
        | SSend p c => Some (set_thr s t (SExit p))
        | SWait p c => Some (set_thr s t (SExit p))
        | _ => None
        end
      else None
  | LSeeAcked t =>
      match thr s t with
      | SWait p c => match c_st (copies s c) with Acked => Some (set_thr s t (SExit p)) | _ => None end
      | _ => None
      end
  | LSeeNacked t =>
      match thr s t with
      | SWait p c => match c_st (copies s c) with Nacked => Some (set_thr s t (SHead p)) | _ => None end
      | _ => None
      end
  | LRecv =>
      match buf s with
      | c :: b => Some (set_buf (set_copy s c (mark_recv (copies s c))) b)
      | [] => None
      end
  | LAck c =>
      if c_recv (copies s c) then
        match c_st (copies s c) with
        | Unsettled => Some (set_copy s c (mark_st (copies s c) Acked))
        | _ => Some s                                   (* first wins (C03) *)
        end
      else None
  | LNack c =>
      if c_recv (copies s c) then
        match c_st (copies s c) with
        | Unsettled => Some (set_copy s c (mark_st (copies s c) Nacked))
        | _ => Some s
        end
      else None
  end.

Fixpoint srun (s : sstate) (ls : list label) : sstate :=
  match ls with
  | [] => s
  | l :: ls' => match sstep s l with Some s' => srun s' ls' | None => srun s ls' end
  end.

Fixpoint sreplay (s : sstate) (ls : list label) : option sstate :=
  match ls with
  | [] => Some s
  | l :: ls' => match sstep s l with Some s' => sreplay s' ls' | None => None end
  end.

(** copies that were handed to the channel (buffered or received) and are not settled: the
    "in flight" messages of property C05 *)
Definition outstanding_b (s : sstate) (c : cid) : bool :=
  Nat.ltb c (next s) && c_sent (copies s c) &&
  match c_st (copies s c) with Unsettled => true | _ => false end.
Definition outstanding (s : sstate) : list cid := filter (outstanding_b s) (seq 0 (next s)).
