(** The API history of a COMPOSED run and the three acceptor-soundness statements that are still
    open (kept visible; none of the three Definitions below is proved).

    What IS proved about the acceptors on composed runs (GoChannel/ComposeTrace.v): the per-
    subscription acceptors [mon_no_dup] and [mon_one_in_flight] accept the history of every
    subscription of every composed run, and the test the replay acceptor applies
    ([count_recv ... = 1] for a registered, acking, not-closing subscription whose Sender returned)
    holds.  The three acceptors below judge WHOLE histories (all subscriptions, Publish / Subscribe
    calls and returns, quiescence); their soundness needs, beyond the theorems above:
      - [mon_delivered], [mon_persistent_replay]: that [AQuiescent] is only emitted in states in
        which every started Sender has returned (label [CQuiet] below) and that a good
        subscription's consumer keeps acking - i.e. liveness of the consumer, an assumption on the
        run; then they follow from ComposeTrace.replay_exactly_once_in_composition and
        Compose.link_sender / RegSend.snapshot_complete.
      - [mon_blocking_order]: Compose.fifo_composed gives the order of first receipts at state
        level; lifting it to the event list needs the order of events in [ctrace] (receipts of p1
        precede the snapshot step of p2 precede the spawn of p2's Senders). *)
From WM Require Import Base.Prelude GoChannel.Reg GoChannel.Compose.
From WM Require GoChannel.Sub GoChannel.Monitor GoChannel.MonitorSound GoChannel.SubCtx.

(** the events one executed composed label emits; [c] is the state before, [c'] after *)
Definition cemit (c c' : cstate) (cl : clabel) : list Monitor.aev :=
  match cl with
  | CReg (GPublish t k ms) => [Monitor.APubCall t k ms]
  | CReg (GT t) => match thr (cg c') t with
                   | PDone ok => [Monitor.APubRet t ok]
                   | CDone => [Monitor.ACloseRet]
                   | _ => []
                   end
  | CReg (GClose _) => [Monitor.ACloseCall]
  | CReg (GSubscribe x k) => [Monitor.ASubCall x k]
  | CReg (GS_ x) =>
      match sb (cg c) x, sb (cg c') x with
      | SCheck _, SFail => [Monitor.ASubRet x false]
      | SCreate _, SReplay _ => [Monitor.ASubRet x true]        (* persistent: Subscribe returns here *)
      | SWUnlock _, SDone _ => if persistent (cg c) then [] else [Monitor.ASubRet x true]
      | _, _ => []
      end
  | CReg (GCancel x) => [Monitor.ACancel x]
  | CReg _ => []
  | CSub x l =>
      match l with
      | Sub.LRecv => match Sub.buf (ci c x) with
                     | k :: _ => [Monitor.ARecv x (Sub.c_pub (Sub.copies (ci c x) k)) k true
                                    (SubCtx.ctx_live (ci c x) k) true]
                     | [] => []
                     end
      | Sub.LHandoff t => match Sub.thr (ci c x) t with
                          | Sub.SSend p k => [Monitor.ARecv x p k true true true]
                          | _ => []
                          end
      | Sub.LAck k => [Monitor.AAck x k]
      | Sub.LNack k => [Monitor.ANack x k]
      | _ => []
      end
  end.
Fixpoint ctrace (c : cstate) (cls : list clabel) : list Monitor.aev :=
  match cls with
  | [] => []
  | cl :: cls' => match cstep c cl with
                  | Some c' => cemit c c' cl ++ ctrace c' cls'
                  | None => ctrace c cls'
                  end
  end.
(** quiescent: every Sender the registry spawned has returned in its instance *)
Definition quiescent (c : cstate) : Prop :=
  forall p x, In (p, x) (senders (cg c)) -> exists q, Sub.thr (ci c x) p = Sub.SDone q.

(** the open statements *)
Definition delivered_acceptor_sound_composed_statement : Prop :=
  forall pers blk fx caps fa cls, let c0 := cinit pers blk fx caps fa in
  quiescent (crun c0 cls) -> Monitor.mon_delivered (ctrace c0 cls ++ [Monitor.AQuiescent]) = [].
Definition replay_acceptor_sound_composed_statement : Prop :=
  forall blk fx caps fa cls, let c0 := cinit true blk fx caps fa in
  quiescent (crun c0 cls) -> Monitor.mon_persistent_replay (ctrace c0 cls ++ [Monitor.AQuiescent]) = [].
Definition blocking_order_acceptor_sound_composed_statement : Prop :=
  forall pers caps fa cls owner, let c0 := cinit pers true true caps fa in
  (forall p t, Monitor.assoc owner p = Some t <-> pthr (cg (crun c0 cls)) p = t /\ In p (used (cg (crun c0 cls)))) ->
  Monitor.mon_blocking_order owner (ctrace c0 cls) = [].

(** sanity of the definitions: the composed run of Compose.composed_run_example (Subscribe,
    blocking Publish of message 1, the Sender delivers, the consumer Acks, the Publish returns)
    produces the history  ASubCall, ASubRet, APubCall, ARecv, AAck, APubRet  and all three
    acceptors accept it *)
Example ctrace_example :
  let cls := [CReg (GSubscribe 0 0)] ++ repeat (CReg (GS_ 0)) 9 ++
             [CReg (GPublish 0 0 [1])] ++ repeat (CReg (GT 0)) 5 ++
             [CSub 0 (Sub.LStep 1); CSub 0 (Sub.LStep 1); CSub 0 (Sub.LHandoff 1); CSub 0 (Sub.LAck 0);
              CSub 0 (Sub.LSeeAcked 1); CSub 0 (Sub.LStep 1)] ++
             [CReg (GAllAcked 1)] ++ repeat (CReg (GT 0)) 4 in
  let c0 := cinit false true true (fun _ => 0) true in
  let h := ctrace c0 cls in
  h = [Monitor.ASubCall 0 0; Monitor.ASubRet 0 true; Monitor.APubCall 0 0 [1];
       Monitor.ARecv 0 1 0 true true true; Monitor.AAck 0 0; Monitor.APubRet 0 true]
  /\ Monitor.mon_delivered (h ++ [Monitor.AQuiescent]) = []
  /\ Monitor.mon_blocking_order [(1, 0)] h = []
  /\ Monitor.mon_blocking h = [].
Proof. vm_compute. repeat split; reflexivity. Qed.
