(** Layer A: a Sender that has returned on a subscription that is not closing has delivered -
    the API history of the subscription contains a receipt of its publication (any consumer).
      returned_received : NoDup (spawn_pubs ls) -> closing s = false -> thr s t = SDone q ->
                          1 <= count_recv (trace x (sinit cap0 fx) ls) x q
      trace_app, sync_trace_no_recv : helper lemmas on MonitorSound.trace. *)
From WM Require Import Base.Prelude Message.Model GoChannel.Sub GoChannel.SubProofs
                       GoChannel.SubInvX GoChannel.SubLive GoChannel.Monitor GoChannel.MonitorSound
                       GoChannel.SubOnce GoChannel.SubFifo.

Lemma trace_app x a : forall s b, trace x s (a ++ b) = trace x s a ++ trace x (srun s a) b.
Proof.
  induction a as [|l a IH]; intros s b; simpl; [reflexivity|].
  destruct (sstep s l) as [s'|]; [rewrite IH; now rewrite app_assoc|apply IH].
Qed.

Theorem returned_received x cap0 fx ls t q : let s := srun (sinit cap0 fx) ls in
  NoDup (spawn_pubs ls) -> closing s = false -> thr s t = SDone q ->
  1 <= count_recv (trace x (sinit cap0 fx) ls) x q.
Proof.
  intros s Hnd Hc Et.
  assert (Hy0 : Y (sinit cap0 fx) (ls ++ [])) by (rewrite app_nil_r; now apply y_init).
  assert (Hy : Y s []) by (apply y_run; [apply sinv_init|exact Hy0]).
  pose proof (count_run x ls (sinit cap0 fx) q (sx_reach cap0 fx []) (y_init cap0 fx ls Hnd)) as Hn.
  fold s in Hn. unfold nrecv at 2 in Hn. simpl in Hn.
  destruct (returned_sender_settled cap0 fx ls t q Hc Et) as (c & H1 & H2 & H3 & H4). fold s in H1, H2, H3, H4.
  assert (0 < nrecv s q); [|lia]. apply (cntf_pos _ _ c H1). unfold recvd. rewrite H4.
  pose proof (y_copy s [] Hy c H1) as Hp. rewrite H2, Et in Hp. simpl in Hp.
  injection Hp as <-. now rewrite Nat.eqb_refl.
Qed.

Print Assumptions returned_received.
