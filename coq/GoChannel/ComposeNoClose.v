(** Composed runs WITHOUT Close and cancel calls: no subscription is ever closing.

      no_close_inv / no_close_not_closing : along every composed run whose labels contain no
          [CReg (GClose _)] and no [CReg (GCancel _)], in every state: nothing is cancelled,
          g.closing is open, no teardown has been woken and [Sub.closing (ci c x) = false] for
          every subscription x.
      delivered_acceptor_sound_composed_no_close_partial : hence, for such runs, the second half of
          the bookkeeping hypothesis [ComposeDelivered.Tested] ("x is not closing") is discharged;
          what remains as a hypothesis is [TestedSenders]: every pair the acceptor tests has a
          Sender in the registry (ASubRet before APubCall ==> x in p's snapshot - the event-order
          half, still open). *)
From WM Require Import Base.Prelude GoChannel.Reg GoChannel.RegLocks GoChannel.RegInv
                       GoChannel.RegSend GoChannel.Compose GoChannel.ComposeLive
                       GoChannel.ComposeAccept GoChannel.ComposeDelivered.
From WM Require GoChannel.Sub GoChannel.SubInvX GoChannel.SubLive GoChannel.SubSpawn GoChannel.Monitor.

Definition tp_close (p : tpc) : bool :=
  match p with CLock | CBody | CWait | CNil | CUnlock | CDone => true | _ => false end.
Definition no_close_label (cl : clabel) : bool :=
  match cl with CReg (GClose _) | CReg (GCancel _) => false | _ => true end.

Record J (c : cstate) : Prop := {
  j_canc : cancelled (cg c) = [];
  j_clos : gclosing (cg c) = false;
  j_thr : forall t, tp_close (thr (cg c) t) = false;
  j_td : forall x, SubLive.woken (Sub.td (ci c x)) = false;
  j_sub : forall x, Sub.closing (ci c x) = false
}.
Lemma j_init pers blk fx caps fa : J (cinit pers blk fx caps fa).
Proof. constructor; intros; reflexivity. Qed.

Lemma spawn_run_closing ps : forall s, Sub.closing (Sub.srun s (SubSpawn.spawns ps)) = Sub.closing s.
Proof.
  induction ps as [|p ps IH]; intros s; simpl; [reflexivity|].
  destruct (Sub.thr s p); try apply IH. now rewrite IH.
Qed.
Lemma snap_sync_closing I p xs y :
  Sub.closing (apply_sync I (map (fun x => (x, Sub.LSpawn p p)) xs) y) = Sub.closing (I y).
Proof. now rewrite apply_sync_proj, own_snap, spawn_run_closing. Qed.
Lemma replay_sync_closing I x log y :
  Sub.closing (apply_sync I (map (fun p => (x, Sub.LSpawn p p)) log) y) = Sub.closing (I y).
Proof.
  rewrite apply_sync_proj, own_replay. destruct (Nat.eqb x y); [apply spawn_run_closing|reflexivity].
Qed.

Lemma sub_free_keeps s l s' : free_sub l = true -> SubLive.woken (Sub.td s) = false ->
  Sub.sstep s l = Some s' -> Sub.td s' = Sub.td s /\ Sub.closing s' = Sub.closing s.
Proof.
  intros Hf Hw E. destruct l; try discriminate Hf; simpl in E; SubInvX.sstep_cases E; simpl; auto;
    match goal with H : Sub.td s = _ |- _ => rewrite H in Hw; discriminate Hw end.
Qed.

Lemma tdspawn_keeps s : SubLive.woken (Sub.td s) = false ->
  SubLive.woken (Sub.td (SubSpawn.sstep1 s Sub.LTdSpawn)) = false
  /\ Sub.closing (SubSpawn.sstep1 s Sub.LTdSpawn) = Sub.closing s.
Proof.
  unfold SubSpawn.sstep1. simpl. intros H.
  destruct (Sub.td s) eqn:E; simpl; rewrite ?E; simpl; split; auto; discriminate H.
Qed.

Lemma j_step c cl c' : J c -> no_close_label cl = true -> cstep c cl = Some c' -> J c'.
Proof.
  intros [A B C D F] Hn E. destruct c as [g I sn]. cbn [cg ci csnap] in *.
  destruct cl as [gl|y sl]; simpl in E.
  - destruct (guard (CS g I sn) gl) eqn:Eg; [|discriminate].
    destruct (gstep g gl) as [g'|] eqn:Es; [|discriminate]. inversion E; subst c'; clear E Eg.
    unfold sync.
    step_cases' Es; try discriminate Hn;
      try match goal with E2 : subs _ _ = _ :: _ |- _ => rewrite <- E2 end;
      try (match goal with E0 : thr g ?t = _ |- _ => pose proof (C t) as Ct; rewrite E0 in Ct; discriminate Ct end);
      try (match goal with E0 : _ || gclosing g = true |- _ => rewrite B, A in E0; discriminate E0 end).
    all: constructor; cbn [cg ci csnap apply_sync]; simpl; auto.
    all: try (intros t'; match goal with |- context [upd _ ?a _ t'] =>
               destruct (Nat.eq_dec t' a) as [->|N]; [rewrite upd_same; try reflexivity; try (destruct (persistent g); reflexivity); try (destruct (blocking g); reflexivity); try (destruct (panicked g); reflexivity)|rewrite upd_other by exact N; apply C] end).
    all: try (intros x0; rewrite ?snap_sync_td, ?replay_sync_td, ?snap_sync_closing, ?replay_sync_closing; auto).
    all: destruct (Nat.eq_dec x0 s) as [->|N]; [rewrite upd_same|rewrite upd_other by exact N; auto];
      destruct (tdspawn_keeps (I s) (D s)) as [T1 T2]; [exact T1 || (rewrite T2; apply F)].
  - destruct (free_sub sl) eqn:Ef; [|discriminate].
    destruct (Sub.sstep (I y) sl) as [s'|] eqn:Es; [|discriminate]. inversion E; subst c'; clear E.
    destruct (sub_free_keeps (I y) sl s' Ef (D y) Es) as [H1 H2].
    constructor; cbn [cg ci csnap]; auto; intros x0;
      (destruct (Nat.eq_dec x0 y) as [->|N]; [rewrite upd_same|rewrite upd_other by exact N; auto]).
    + rewrite H1. apply D.
    + rewrite H2. apply F.
Qed.

Lemma no_close_run cls : forall c, J c -> forallb no_close_label cls = true -> J (crun c cls).
Proof.
  induction cls as [|cl cls IH]; intros c Hj Hf; simpl in *; [exact Hj|].
  apply andb_true_iff in Hf as [Hl Hf]. destruct (cstep c cl) as [c'|] eqn:E; [|now apply IH].
  apply IH; [eapply j_step; eauto|exact Hf].
Qed.
Theorem no_close_not_closing pers blk fx caps fa cls x :
  forallb no_close_label cls = true ->
  Sub.closing (ci (crun (cinit pers blk fx caps fa) cls) x) = false
  /\ gclosing (cg (crun (cinit pers blk fx caps fa) cls)) = false.
Proof.
  intros Hf. pose proof (no_close_run cls _ (j_init pers blk fx caps fa) Hf) as Hj.
  split; [apply (j_sub _ Hj)|apply (j_clos _ Hj)].
Qed.

(** what is left of [Tested]: the pairs the acceptor tests have a Sender in the registry *)
Definition TestedSenders (c : cstate) (h : list Monitor.aev) : Prop :=
  forall x k si p k' ic, In (x, k) (Monitor.good_subs h) ->
    Monitor.index_of_subret (Monitor.upto_quiescent h) x = Some si ->
    In (p, k', ic) (Monitor.good_pubs h) -> Nat.eqb k' k && Nat.ltb si ic = true ->
    In (p, x) (senders (cg c)).

Theorem delivered_acceptor_sound_composed_no_close_partial pers blk fx caps fa cls :
  let c0 := cinit pers blk fx caps fa in let c := crun c0 cls in
  let h := ctrace c0 cls ++ [Monitor.AQuiescent] in
  forallb no_close_label cls = true ->
  quiescent c -> TestedSenders c h -> Monitor.mon_delivered h = [].
Proof.
  intros c0 c h Hf Hq Ht. apply (delivered_acceptor_sound_composed_partial pers blk fx caps fa cls Hq).
  intros x k si p k' ic Hx Hs Hp Hc. split; [eapply Ht; eauto|].
  apply (no_close_not_closing pers blk fx caps fa cls x Hf).
Qed.

Print Assumptions no_close_not_closing.
Print Assumptions delivered_acceptor_sound_composed_no_close_partial.
